#!/bin/bash
# Runs every kept seed against its property's check (if that property has a check) and prints one line per seed.
cd /verif
claimed=$(python3 -c "import json;print(' '.join(sorted(json.load(open('specs/props.json')).keys())))")
for d in seeded/*/; do
  name=$(basename $d)
  prop=$(python3 -c "import json;print(json.load(open('$d/meta.json'))['property'])")
  if echo " $claimed " | grep -q " $prop "; then
    out=$(tools/seed_run.sh $name $prop 2>&1)
    n=$(echo "$out" | grep -c "VIOLATION")
    first=$(echo "$out" | grep VIOLATION | head -1 | sed 's/.*replays\/[A-Z0-9]*\///; s/\.json.*//')
    if [ "$n" -gt 0 ]; then echo "CAUGHT  $name by $prop ($n obligations, e.g. $first)"; else echo "MISSED  $name by $prop"; fi
  else
    echo "NOCHECK $name ($prop has no check yet)"
  fi
done
