#!/bin/bash
# Regenerates selftest/*.diff: small deliberate property-breaking edits made by the verifier author while writing the contracts
# (each compiles). tools/selftest.sh applies them one at a time and expects the named property's check to report a violation.
# Format of selftest/INDEX: <name> <property> <file> ; the edit itself is the sed expression below.
set -e
cd /repo
git diff --quiet || { echo "/repo dirty"; exit 2; }
mk() { # name property file sed-expr
  sed -i "$4" "$3"
  if git diff --quiet; then echo "selftest $1: edit did not apply"; exit 1; fi
  git diff > /verif/selftest/$1.diff
  git checkout -- .
  echo "$1 $2 $3" >> /verif/selftest/INDEX
}
: > /verif/selftest/INDEX
FL2=extensions/omniv21/fileformat/flatfile/fixedlength
mk fl2_startpos      C06 $FL2/decl.go 's/start := c.StartPos - 1/start := c.StartPos/'
mk fl2_advance_byte  C06 $FL2/decl.go 's/line = line\[adv:\]/line = line[adv-adv+1:]/'
mk fl2_length_short  C06 $FL2/decl.go 's/for lenCount > 0 \&\& i < len(line)/for lenCount > 1 \&\& i < len(line)/'
mk fl2_pop_wrong_src C06 $FL2/reader.go 's/r.linesBuf\[i\] = r.linesBuf\[i+n\]/r.linesBuf[i] = r.linesBuf[n]/'
mk fl2_no_copy_flag  C09 $FL2/reader.go 's/if linesBufLen > 0 \&\& !r.linesBuf\[linesBufLen-1\].copied {/if linesBufLen > 1 \&\& !r.linesBuf[linesBufLen-1].copied {/'
mk xpath_quote_scan  C04 idr/util.go "s/for pos--; pos >= 0 \&\& runes\[pos\] != quote; pos-- {/for pos--; pos >= 0 \&\& runes[pos] != quote \&\& runes[pos] != '\"'; pos-- {/"
mk json_num_text     C08 idr/jsonreader.go "s/data = strconv.FormatFloat(v, 'f', -1, 64)/data = strconv.FormatFloat(v, 'g', -1, 64)/"
mk oldfl_plain_error C16 extensions/omniv21/fileformat/fixedlength/reader.go 's/return nil, ErrInvalidEnvelope(r.fmtErrStr("incomplete envelope: %s", err.Error()))/return nil, r.FmtErr("incomplete envelope: %s", err.Error())/'
mk edi_unescape_inplace C07 extensions/omniv21/fileformat/edi/reader.go 's/strs.ByteUnescape(rawElem.Data, r.releaseChar.b, false)/strs.ByteUnescape(rawElem.Data, r.releaseChar.b, true)/'
mk json_array_flag   C08 idr/marshal2.go 's/if ctx.useJSONType \&\& IsJSON(n) {/if ctx.useJSONType \&\& IsJSONArr(n) {/'
mk csv2_comma_byte   C06 extensions/omniv21/fileformat/flatfile/csv/reader.go 's/csv.Comma = delim\[0\]/csv.Comma = delim[len(delim)-1]/'
mk reset_keeps_data  C12 idr/node.go 's/n.Data = ""/n.Data = n.Data/'
python3 - <<'PY'
p='extensions/omniv21/transform/validate.go'; s=open(p).read()
s=s.replace("""	// `children` stays in declaration order: parseArray emits the array elements by walking it.
	return nil""","""	sort.Slice(decl.children, func(i, j int) bool { return decl.children[i].fqdn < decl.children[j].fqdn })
	return nil""",1); open(p,'w').write(s)
PY
git diff > /verif/selftest/array_children_sorted.diff; git checkout -- .; echo "array_children_sorted C02 extensions/omniv21/transform/validate.go" >> /verif/selftest/INDEX
python3 - <<'PY'
p='extensions/omniv21/fileformat/csv/format.go'; s=open(p).read()
s=s.replace("delim == 0 || delim == '\"' ||","delim == 0 ||",1); open(p,'w').write(s)
PY
git diff > /verif/selftest/csv_quote_delimiter_allowed.diff; git checkout -- .; echo "csv_quote_delimiter_allowed C03 extensions/omniv21/fileformat/csv/format.go" >> /verif/selftest/INDEX
python3 - <<'PY'
p='extensions/omniv21/transform/invokeCustomFunc.go'; s=open(p).read()
s=s.replace("if fnType.IsVariadic() && argIndex >= lastIndex {","if fnType.IsVariadic() {",1); open(p,'w').write(s)
PY
git diff > /verif/selftest/elem_of_any_param.diff; git checkout -- .; echo "elem_of_any_param C03 extensions/omniv21/transform/invokeCustomFunc.go" >> /verif/selftest/INDEX
python3 - <<'PY'
p='extensions/omniv21/transform/invokeCustomFunc.go'; s=open(p).read()
s=s.replace("} else if len(argValues) != numIn {","} else if len(argValues) < numIn {",1); open(p,'w').write(s)
PY
git diff > /verif/selftest/arity_check_too_weak.diff; git checkout -- .; echo "arity_check_too_weak C03 extensions/omniv21/transform/invokeCustomFunc.go" >> /verif/selftest/INDEX
python3 - <<'PY'
p='idr/query.go'; s=open(p).read()
s=s.replace("""	if iter.MoveNext() {
		return nil, ErrMoreThanExpected
	}
	return ret, nil""","""	return ret, nil""",1); open(p,'w').write(s)
PY
git diff > /verif/selftest/matchsingle_first_of_many.diff; git checkout -- .; echo "matchsingle_first_of_many C02 idr/query.go" >> /verif/selftest/INDEX
python3 - <<'PY'
p='extensions/omniv21/transform/parse.go'; s=open(p).read()
s=s.replace("""	case err == idr.ErrNoMatch:
		return nil, nil""","""	case err == idr.ErrNoMatch:
		return n, nil""",1); open(p,'w').write(s)
PY
git diff > /verif/selftest/nomatch_keeps_cursor.diff; git checkout -- .; echo "nomatch_keeps_cursor C02 extensions/omniv21/transform/parse.go" >> /verif/selftest/INDEX
V=extensions/omniv21/transform/validate.go
mk tmpl_no_dup_check   C03 $V 's/if strs.HasDup(templateRefStack) {/if len(templateRefStack) > 64 \&\& strs.HasDup(templateRefStack) {/'
mk tmpl_stack_not_grown C03 $V 's/return ctx.validateDecl(fqdn, declNew, templateRefStack)/return ctx.validateDecl(fqdn, declNew, templateRefStack[:len(templateRefStack)-1])/'
mk cfarg_same_decl     C03 $V 's/decl.CustomFunc.Args\[i\],$/decl,/'
mk array_stack_cut     C03 $V 's/strs.BuildFQDN(fqdn, fmt.Sprintf("elem\[%d\]", i+1)), childDecl, templateRefStack)/strs.BuildFQDN(fqdn, fmt.Sprintf("elem[%d]", i+1)), childDecl, templateRefStack[:1])/'
echo "selftest corpus: $(wc -l < /verif/selftest/INDEX) edits"
