#!/bin/bash
# Regenerates selftest/harmless/*.diff: edits that keep the behaviour (equivalent rewrites, reordered independent statements,
# a renamed local that no contract names). Checks must stay quiet on them.
set -e
cd /repo
git diff --quiet || { echo "/repo dirty"; exit 2; }
: > /verif/selftest/harmless/INDEX
fin() { if git diff --quiet; then echo "harmless $1: edit did not apply"; exit 1; fi; git diff > /verif/selftest/harmless/$1.diff; git checkout -- .; echo "$1 $2 $3" >> /verif/selftest/harmless/INDEX; }
FL2=extensions/omniv21/fileformat/flatfile/fixedlength
sed -i 's/\t\ti += adv/\t\ti = i + adv/' $FL2/decl.go; fin fl2_plus_assign C06 $FL2/decl.go
python3 - <<'PY'
p='idr/node.go'; s=open(p).read()
s=s.replace('''	n.Type = 0
	n.Data = ""
	n.FormatSpecific = nil''','''	n.FormatSpecific = nil
	n.Data = ""
	n.Type = 0''',1); open(p,'w').write(s)
PY
fin reset_reordered C12 idr/node.go
python3 - <<'PY'
p='extensions/omniv21/fileformat/fixedlength/reader.go'; s=open(p).read()
s=s.replace('''		switch err {
		case nil:
			r.line++
		default:
			return nil, err
		}''','''		if err != nil {
			return nil, err
		}
		r.line++''',1); open(p,'w').write(s)
PY
fin oldfl_if_instead_of_switch C16 extensions/omniv21/fileformat/fixedlength/reader.go
python3 - <<'PY'
p='extensions/omniv21/fileformat/flatfile/csv/reader.go'; s=open(p).read()
a=s.index('func (r *reader) readLine() error {'); b=s.index('\n}\n',a)
seg=s[a:b].replace('record, err','rec, err').replace('len(record)','len(rec)').replace('record...','rec...')
s=s[:a]+seg+s[b:]; open(p,'w').write(s)
PY
fin csv2_renamed_local C06 extensions/omniv21/fileformat/flatfile/csv/reader.go
python3 - <<'PY'
p='idr/marshal2.go'; s=open(p).read()
s=s.replace('''	return elemNum > 1 || (elemNum == 1 && *elemName == "")''','''	if elemNum > 1 {
		return true
	}
	return elemNum == 1 && *elemName == ""''',1); open(p,'w').write(s)
PY
fin ischildarray_split_return C08 idr/marshal2.go
python3 - <<'PY'
p='idr/jsonreader.go'; s=open(p).read()
s=s.replace('''	case float64:
		data = strconv.FormatFloat(v, 'f', -1, 64)
		jtype = JSONValueNum
	case bool:
		data = strconv.FormatBool(v)
		jtype = JSONValueBool''','''	case bool:
		data = strconv.FormatBool(v)
		jtype = JSONValueBool
	case float64:
		data = strconv.FormatFloat(v, 'f', -1, 64)
		jtype = JSONValueNum''',1); open(p,'w').write(s)
PY
fin json_cases_swapped C08 idr/jsonreader.go
python3 - <<'PY'
p='customfuncs/datetime.go'; s=open(p).read()
import re
open(p,'w').write(s)
PY
python3 - <<'PY'
p='extensions/omniv21/transform/validate.go'; s=open(p).read()
s=s.replace("""	templateRefStack = append(strs.CopySlice(templateRefStack), templateName)""","""	stackCopy := strs.CopySlice(templateRefStack)
	templateRefStack = append(stackCopy, templateName)""",1); open(p,'w').write(s)
PY
fin tmpl_copy_two_steps C03 extensions/omniv21/transform/validate.go
echo "harmless corpus: $(wc -l < /verif/selftest/harmless/INDEX) edits"
