#!/usr/bin/env python3
"""Print the prompt handed to a fresh sub-agent asked to seed a property-breaking change.
Only the property text is included (nothing from /verif)."""
import json, sys
pid = sys.argv[1]; tag = sys.argv[2] if len(sys.argv) > 2 else 'a'
p = next(json.loads(l) for l in open('/verif/properties.jsonl') if json.loads(l)['id'] == pid)
wt = f"/tmp/seed_{pid}_{tag}"
out = f"/tmp/seedout_{pid}_{tag}"
print(f"""You are testing how robust a Go library is against subtle regressions. The library is jf-tech/omniparser
(a Go streaming ETL library: parses CSV, fixed-length, XML, JSON, EDI into a node tree and transforms records to JSON via schemas).

Work ONLY in your own scratch git worktree. Create it first:
    git -C /repo worktree add --detach {wt} HEAD
Then immediately run:   find {wt} -name verif_contracts.go -delete     (comment-only files that are not part of the library; do not read
them, never include them in a patch, and use `git diff -- . ':(exclude)*verif_contracts.go'`-style diffs of the source files you changed only).
Do not use `git stash` (the stash is shared with other worktrees). Never edit anything under /repo or /verif, and do not read /verif. Every shell call needs:
    export GOFLAGS=-mod=mod GOPROXY=off GOSUMDB=off GOTOOLCHAIN=local
(there is no network). The full test suite is run with:  cd {wt} && go test -vet=off -count=1 ./...   (about 10 s; it passes on the unchanged tree).

Here is a semantic property of the library that is supposed to hold:

  {p['id']} - {p['title']}
  {p['statement']}
  Quantifier: {p['quantifier']['text']}

Your task: produce TWO different, independent, realistic source changes to the library (non-test .go files only, each a small patch of the
kind a developer could plausibly make by mistake or during a refactor/optimisation) such that, for each change:
  1. the library still compiles and the ENTIRE existing test suite still passes, unedited, with the change applied;
  2. the change BREAKS the property above;
  3. the breakage needs something specific to manifest - an unusual input, a multi-step sequence of operations, a fault at a particular
     point, a specific shape, or two cooperating sites that each look fine alone - NOT something ordinary use would expose at once;
  4. you have a demonstration: a new Go test file (a _test.go placed inside the appropriate package directory of the worktree, or a small
     program) that FAILS with the change applied and PASSES on the unchanged tree. Verify both directions yourself by actually running it.

Read the relevant source to find good spots. Prefer changes in different functions/files for the two patches. Do not change test files,
testdata or .snapshots as part of a patch. Keep each patch minimal (a few lines).

Deliver into {out}/1/ and {out}/2/ (create them):
    patch.diff      - `git diff` of the source change only (must apply to a clean checkout of HEAD with `git apply`)
    demo_test.go    - the demonstration test, plus a file demo_path.txt containing the repo-relative path where it must be placed
                      (e.g. idr/zz_demo_test.go) and the `go test` command line that runs just it
    meta.json       - {{"property": "{p['id']}", "summary": "...what was changed...", "needs": "...what it needs to manifest...",
                       "ran": ["commands you ran and their outcome"]}}
When both are delivered and verified (suite green with patch; demo fails with patch; demo passes without), clean up:
    git -C /repo worktree remove --force {wt}
Finish with a short report: for each patch one line on what it changes and how the demo exposes it. If you can only find one good change,
deliver one and say so.""")
