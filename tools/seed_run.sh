#!/bin/bash
# usage: seed_run.sh <seed name> [property ...]   applies /verif/seeded/<name>/patch.diff to /repo, runs the checks, reverts.
name="$1"; shift
props="$@"
[ -z "$props" ] && props=$(python3 -c "import json;print(json.load(open('/verif/seeded/$name/meta.json'))['property'])")
cd /repo && git diff --quiet || { echo "/repo has uncommitted changes to tracked files; refusing"; exit 2; }
git -C /repo apply /verif/seeded/$name/patch.diff || { echo "SEED $name: patch does not apply"; exit 2; }
for p in $props; do
  out=$(cd /verif && ./run check -property $p -tier quick 2>&1); rc=$?
  echo "SEED $name property=$p rc=$rc $(echo "$out" | grep -c '^VIOLATION') violation line(s)"
  echo "$out" | grep '^VIOLATION' | sed 's/^/    /'
done
git -C /repo checkout -- .
