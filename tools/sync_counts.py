#!/usr/bin/env python3
"""Rewrites the counts quoted in the C03 claim text (tools/gen_manifest.py) and in design/as_built.md from specs/props.json and
evidence/C03.json, so that the prose cannot drift from what the check reports."""
import json, re
p = json.load(open('/verif/specs/props.json'))
e = json.load(open('/verif/evidence/C03.json'))
nsafe = sum(1 for f in p['C03']['funcs'] if '#' in f and 'safety' in f.split('#')[1].split(','))
rng = var = calls = None
for a in e['assumptions']:
    m = re.search(r'(\d+) range loops terminate by construction, (\d+) loops have a proved variant', a)
    if m: rng, var = int(m.group(1)), int(m.group(2))
    m = re.search(r'termination: (\d+) call sites between recursive functions', a)
    if m: calls = int(m.group(1))
for path in ['/verif/tools/gen_manifest.py', '/verif/design/as_built.md']:
    s = open(path).read()
    s = re.sub(r'for \d+ functions under contract', f'for {nsafe} functions under contract', s)
    s = re.sub(r'obligation \(nil, bounds, slice, type assertion, explicit panic, division\) of \d+ functions under contract', f'obligation (nil, bounds, slice, type assertion, explicit panic, division) of {nsafe} functions under contract', s)
    if var is not None:
        s = re.sub(r'\d+ loops carry a proved variant', f'{var} loops carry a proved variant', s)
        s = re.sub(r'proved loop variants for \d+ loops', f'proved loop variants for {var} loops', s)
    if rng is not None:
        s = re.sub(r'\d+ range loops terminate by construction', f'{rng} range loops terminate by construction', s)
        s = re.sub(r'\d+ range loops', f'{rng} range loops', s)
    open(path, 'w').write(s)
print('C03 counts:', nsafe, 'functions with safety obligations claimed;', var, 'loop variants;', rng, 'range loops;', calls, 'recursive call sites with a variant')
