#!/bin/bash
# Must-fail and harmless corpora in scratch worktrees (never touches /repo or the committed evidence); several edits at a time.
# usage: selftest_wt.sh [parallelism] [name-pattern]
cd /verif
par=${1:-4}; pat=${2:-.}
export GOFLAGS=-mod=mod GOPROXY=off GOSUMDB=off GOTOOLCHAIN=local
one() { # kind name prop
  kind=$1; name=$2; prop=$3
  diff=/verif/selftest/$name.diff; [ "$kind" = harmless ] && diff=/verif/selftest/harmless/$name.diff
  wt=/tmp/selftest_${name}_$$; out=/tmp/selftestout_${name}_$$
  git -C /repo worktree add --detach "$wt" HEAD >/dev/null 2>&1 || { echo "ERROR   $name worktree"; return; }
  if ! git -C "$wt" apply "$diff" 2>/dev/null; then echo "STALE   $kind/$name (does not apply)"; git -C /repo worktree remove --force "$wt"; return; fi
  if ! (cd "$wt" && go build ./... >/dev/null 2>&1); then echo "NOBUILD $name"; git -C /repo worktree remove --force "$wt"; return; fi
  mkdir -p "$out"
  res=$(VERIF_OUT="$out" ./run check -repo "$wt" -property $prop -tier quick 2>&1)
  n=$(echo "$res" | grep -c "^VIOLATION")
  if [ "$kind" = mustfail ]; then
    if [ "$n" -gt 0 ]; then echo "CAUGHT  $name by $prop ($(echo "$res" | grep '^VIOLATION' | head -1 | sed 's/.*replay=.*\///; s/\.json.*//'))"; else echo "MISSED  $name by $prop"; fi
  else
    if [ "$n" -eq 0 ]; then echo "QUIET   harmless/$name under $prop"; else echo "ALARM   harmless/$name under $prop: $(echo "$res" | grep '^VIOLATION' | head -2)"; fi
  fi
  git -C /repo worktree remove --force "$wt" >/dev/null 2>&1; rm -rf "$wt" "$out"
}
export -f one
( while read name prop file; do [ -n "$name" ] && echo "mustfail $name $prop"; done < selftest/INDEX
  while read name prop file; do [ -n "$name" ] && echo "harmless $name $prop"; done < selftest/harmless/INDEX ) | grep -E "$pat" | xargs -P "$par" -L 1 bash -c 'one $0 $1 $2' | sort | tee /tmp/selftest_wt.out
! grep -qE "^(MISSED|ALARM|STALE|NOBUILD|ERROR)" /tmp/selftest_wt.out
