#!/bin/bash
# usage: seed_validate.sh <seedout dir> <target name under /verif/seeded>
# Confirms in a scratch worktree: patch applies to HEAD, suite green with patch, demo fails with patch and passes without.
# On success copies patch.diff, demo, meta.json into /verif/seeded/<name>/ and records what was run.
set -u
src="$1"; name="$2"
export GOFLAGS=-mod=mod GOPROXY=off GOSUMDB=off GOTOOLCHAIN=local
wt=/tmp/seedval_$$
git -C /repo worktree add --detach "$wt" HEAD >/dev/null 2>&1 || { echo "worktree failed"; exit 2; }
cleanup() { git -C /repo worktree remove --force "$wt" >/dev/null 2>&1; rm -rf "$wt"; }
trap cleanup EXIT
demo_rel=$(head -1 "$src/demo_path.txt" | tr -d '\r' | awk '{print $1}')
[ -f "$src/demo_test.go" ] || { echo "no demo_test.go"; exit 2; }
pkgdir=$(dirname "$demo_rel")
cp "$src/demo_test.go" "$wt/$demo_rel"
run_demo() { (cd "$wt" && go test -vet=off -count=1 -timeout 300s "./$pkgdir/" -run "$(grep -o 'func Test[A-Za-z0-9_]*' "$wt/$demo_rel" | sed 's/func //' | paste -sd'|')" 2>&1); }
out_clean=$(run_demo); rc_clean=$?
if ! git -C "$wt" apply "$src/patch.diff" 2>/tmp/seedval_err_$$; then echo "RESULT $name: patch does not apply: $(cat /tmp/seedval_err_$$)"; rm -f /tmp/seedval_err_$$; exit 1; fi
rm -f /tmp/seedval_err_$$
out_patched=$(run_demo); rc_patched=$?
rm -f "$wt/$demo_rel"
suite=$(cd "$wt" && go build ./... 2>&1 && go test -vet=off -count=1 ./... 2>&1); rc_suite=$?
echo "RESULT $name: demo_clean_rc=$rc_clean demo_patched_rc=$rc_patched suite_rc=$rc_suite"
if [ $rc_clean -eq 0 ] && [ $rc_patched -ne 0 ] && [ $rc_suite -eq 0 ]; then
  mkdir -p /verif/seeded/$name
  cp "$src/patch.diff" /verif/seeded/$name/patch.diff
  cp "$src/demo_test.go" /verif/seeded/$name/demo_test.go
  cp "$src/demo_path.txt" /verif/seeded/$name/demo_path.txt
  python3 - "$src/meta.json" "$name" "$demo_rel" <<'PY'
import json,sys
try: m=json.load(open(sys.argv[1]))
except Exception as e: m={"summary":"(agent meta.json unreadable: %s)"%e}
out={"property":m.get("property"),"summary":m.get("summary"),"needs":m.get("needs"),"agent_ran":m.get("ran"),
 "confirmed_by_me":["scratch worktree of /repo HEAD","demo on clean tree: PASS","demo with patch: FAIL","full suite with patch (demo removed): PASS"],
 "demo_path":sys.argv[3],"base_commit":None}
import subprocess
out["base_commit"]=subprocess.run(["git","-C","/repo","rev-parse","HEAD"],capture_output=True,text=True).stdout.strip()
json.dump(out,open(f"/verif/seeded/{sys.argv[2]}/meta.json","w"),indent=1)
PY
  echo "KEPT /verif/seeded/$name"
else
  echo "--- clean:"; echo "$out_clean" | tail -5; echo "--- patched:"; echo "$out_patched" | tail -5; echo "--- suite:"; echo "$suite" | grep -v "^ok\|no test files" | tail -5
fi
