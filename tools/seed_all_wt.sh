#!/bin/bash
# Runs every kept seed against its property's check in scratch worktrees (tools/seed_run_wt.sh), several at a time, and writes
# seeded/RESULTS.txt in the format tools/gen_design.py reads. /repo itself and the committed evidence are never touched.
# usage: seed_all_wt.sh [parallelism] [name-pattern]
cd /verif
par=${1:-4}; pat=${2:-.}
tmp=$(mktemp -d /tmp/seedall_XXXX)
ls seeded | grep -v RESULTS | grep -E "$pat" | xargs -P "$par" -I{} sh -c "tools/seed_run_wt.sh {} > $tmp/{}.txt 2>&1"
for f in $(ls $tmp | sort); do
  name=${f%.txt}
  prop=$(python3 -c "import json;print(json.load(open('seeded/$name/meta.json'))['property'])")
  n=$(grep -c "VIOLATION" $tmp/$f)
  first=$(grep VIOLATION $tmp/$f | head -1 | sed 's/.*replays\/[A-Z0-9]*\///; s/\.json.*//')
  if [ "$n" -gt 0 ]; then echo "CAUGHT  $name by $prop ($n obligations, e.g. $first)"; else echo "MISSED  $name by $prop"; fi
done > ${tmp}.results
cat ${tmp}.results
if [ "$pat" = "." ]; then cp ${tmp}.results seeded/RESULTS.txt; fi
rm -rf $tmp ${tmp}.results
