#!/bin/bash
# Re-runs every claimed check's quick command on the current (clean) /repo so that committed evidence files describe the unchanged tree.
cd /verif
git -C /repo diff --quiet || { echo "/repo has uncommitted changes to tracked files"; exit 2; }
rc=0
for p in $(python3 -c "import json;print(' '.join(c['property_id'] for c in json.load(open('MANIFEST.json'))['checks']))"); do
  out=$(./run check -property $p -tier quick 2>&1); r=$?
  echo "$out" | tail -1
  echo "$out" | grep -E "^(VIOLATION|KNOWN-FINDING|UNBOUND)" 
  [ $r -ne 0 ] && rc=1
done
python3-vt - <<'PY'
import json,jsonschema,glob
es=json.load(open('/root/.vp/EVIDENCE.schema.json'))
for f in sorted(glob.glob('/verif/evidence/*.json')):
    d=json.load(open(f)); jsonschema.validate(d,es)
    c=d['coverage']
    assert d['level']!='proof' or c['obligations']==c['discharged'] or c.get('known_findings'), f
m=json.load(open('/verif/MANIFEST.json'))
jsonschema.validate(m, json.load(open('/root/.vp/MANIFEST.schema.json')))
for c in m['checks']:
    d=json.load(open(c['evidence_file']))
    assert d['level']==c['level_claimed']['category'], (c['property_id'], d['level'], c['level_claimed']['category'])
    assert d['property_id']==c['property_id']
print("evidence + manifest valid")
PY
if [ $rc -eq 0 ]; then echo "REFRESH OK"; else echo "REFRESH FAILED (a check exited non-zero on the clean tree: do not commit this evidence)"; fi
exit $rc
