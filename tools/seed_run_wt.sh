#!/bin/bash
# usage: seed_run_wt.sh <seed name> [property ...]
# Like seed_run.sh, but never touches /repo: applies /verif/seeded/<name>/patch.diff to a scratch worktree of /repo's HEAD, runs the
# checks against that worktree (gvc -repo) with their output redirected to a scratch directory (VERIF_OUT), removes both afterwards.
# Several of these can run side by side, and beside a refresh of the evidence.
name="$1"; shift
props="$@"
[ -z "$props" ] && props=$(python3 -c "import json;print(json.load(open('/verif/seeded/$name/meta.json'))['property'])")
wt=/tmp/seedrun_${name}_$$; out=/tmp/seedrunout_${name}_$$
git -C /repo worktree add --detach "$wt" HEAD >/dev/null 2>&1 || { echo "SEED $name: worktree failed"; exit 2; }
cleanup() { git -C /repo worktree remove --force "$wt" >/dev/null 2>&1; rm -rf "$wt" "$out"; }
trap cleanup EXIT
git -C "$wt" apply /verif/seeded/$name/patch.diff || { echo "SEED $name: patch does not apply"; exit 2; }
mkdir -p "$out"
for p in $props; do
  res=$(cd /verif && VERIF_OUT="$out" ./run check -repo "$wt" -property $p -tier quick 2>&1); rc=$?
  echo "SEED $name property=$p rc=$rc $(echo "$res" | grep -c '^VIOLATION') violation line(s)"
  echo "$res" | grep '^VIOLATION' | sed 's/^/    /'
done
