#!/usr/bin/env python3
"""Regenerates /verif/MANIFEST.json from the table below (kept here so the manifest stays valid and consistent)."""
import json, subprocess

CLAIMS = {
 "C01": dict(
  category="proof",
  text="Deductive proof, for all inputs and call histories, of the postconditions of the real transform.Read / RawRecord (result trichotomy, terminal latch, bytes nil on error, RawRecord gating), of ingester.Read / IsContinuableError (non-nil raw record and bytes on success; io.EOF never continuable) and of the seven per-format IsContinuableError classifiers, plus the history lemma C01_latch over the contract of Read. transform.Read is verified against the Ingester interface contract only, so the result covers caller-supplied handlers that meet that contract.",
  note="Assumed: json.Marshal returns non-nil bytes when err == nil (valid UTF-8 JSON is json.Marshal's own contract, not re-proved); errors.New / io.EOF dynamic type; caller-supplied Ingester/FormatReader implementations satisfy their interface contracts and do not call back into the calling package; ParseNode's write footprint (SSA frame analysis); sequential execution.",
  technique="contract-based deductive verification: WP/symbolic execution over go/ssa + SMT (z3/cvc5)",
  design_ref="§6 C01"),
 "C19": dict(
  category="proof",
  text="Deductive proof over the real customfuncs date-time functions, for all argument values: parseDateTime computes exactly the documented zone decision table (a zone in the text wins over fromTZ; fromTZ overwrites keeping the wall clock; toTZ converts an instant that has a zone) as a function pdT of the dependencies' results, with lemmas restating the table; empty input gives empty output; every callee error gives an error and the empty string; dateTimeToEpoch returns sec (SECOND) or sec*1000 + floor(nsec/1e6) (MILLISECOND) of that instant and epochToDateTimeRFC3339 formats an instant whose second is floor(n/1000); every integer operation in the two epoch functions carries an int64-range obligation (checks overflow), so the result is exact over the whole year range 1..9999.",
  note="Assumed (specs/extern/time.gvc): abstract time (sec, nsec in [0,1e9), wall, zone); time.Unix normalisation, Unix/UnixNano/Nanosecond/In/Format/Parse; go-corelib SmartParse returns an instant in years 0..9999, OverwriteTZ keeps the wall clock, ConvertTZ keeps the instant; strconv.ParseInt/FormatInt inverse; layout parsing and the IANA database are entirely inside those assumptions.",
  technique="contract-based deductive verification: WP/symbolic execution over go/ssa + SMT, integer arithmetic with explicit int64 range obligations",
  design_ref="§6 C19"),
 "C12": dict(
  category="proof",
  text="Deductive proof over the real idr/node.go: AddChild and RemoveAndReleaseTree preserve the quantified link invariant Tree() (every live node is locally consistent with its five neighbours, child and sibling links of live nodes point at live nodes, sibling lists strictly ordered by a ghost position hence acyclic) for all heaps; RemoveAndReleaseTree's whole-view postcondition pins every still-live node (only the at most four links that pointed at n change); reset yields a blank, no-longer-live node with an ID the atomic counter has just issued; CreateNode meets one postcondition on the pooled and the allocating path (blank except Type/Data, not live before, ID never carried by an earlier acquisition, all other nodes untouched, pool invariant kept); sync.Pool.Put's precondition forbids pooling a live, non-blank, already pooled or already-acquired-ID node (no double hand-out). Frame obligations: only AddChild/RemoveAndReleaseTree/reset write link fields, only reset writes IDs. recycle (recursion + sibling loop) is checked in bounded mode only (trees with <= 2 levels of recursion and <= 2 children per node) against the contract RemoveAndReleaseTree is proved from.",
  note="Assumed: sync.Pool.Get returns New() or a previously Put object not handed out since; atomic.AddInt64 is a linearizable fetch-and-add (each value issued once; a later separate load is not the value issued); recycle's contract beyond the stated bound; that a live node's Parent is live and full acyclicity of parent chains are NOT part of the proved invariant (need an induction the solver cannot do); 'child list lists exactly the attached nodes' follows from the invariant by induction on the ghost order (paper); call sites of AddChild/RemoveAndReleaseTree in the readers are checked under C04/C05/C17 as those functions come under contract; racing acquisitions only through the atomic/pool assumptions.",
  technique="contract-based deductive verification: quantified heap invariants with ghost state over go/ssa + SMT; SSA frame analysis; bounded symbolic execution for recycle (labelled bounded)",
  design_ref="§6 C12"),
 "C10": dict(
  category="proof",
  text="Proved: (frame C10_transformFrame, SSA footprint over the reach of ParseNode plus all built-in custom functions) evaluating a record stores into no node, reader, ingester or declaration, so a failing or succeeding transform leaves the reader and tree where they were; ingester.Read evaluates each record with an evaluation context allocated in that call (NewParseCtx returns a fresh context with caching on), returns ErrTransformFailed-class errors for transform failures only through the same path, and releases nothing but its own previous record; every node acquisition gets a newly issued ID (reset), so no cached result can alias a recycled node.",
  note="The algebraic laws of the statement (concatenation, permutation, replacement) are a paper corollary of these per-call contracts plus C13 and are not machine-checked; XML/JSON record content as a function of its own bytes and javascript state rest on C08/C20; release-before-read ordering inside ingester.Read is visible in the verified text but not expressed as a postcondition.",
  technique="contract-based deductive verification (SMT) + whole-program SSA write-frame obligation",
  design_ref="§6 C10"),
 "C14": dict(
  category="proof",
  text="Frame obligations plus the SMT-proved isolation of the shared JavaScript VM pool (execProgram: every pre-existing VM is left with the globals it had). Over the 336-function reach of NewTransform/Read/RawRecord (plus reflection callees and callbacks) no store goes into a schema-owned struct except initialising an object the storing function allocated, no package-level variable is assigned, and the address of a package-level variable is passed only to sync/atomic and sync.Pool methods. This decides the sharing discipline the property rests on; it does not explore interleavings.",
  note="Assumed: thread-safety of sync.Pool, sync/atomic, hashicorp LRU; *goja.Program, *xpath.Expr (cloned per query) and *regexp.Regexp are safe to share; Go memory model for publishing the Schema; one transformctx.Ctx per Transform (NewTransform writes Ctx.InputName/CtxAwareErr). Data races inside dependencies are invisible to this check. Concurrency itself is outside what contract-based sequential verification decides.",
  technique="contract-style write-frame obligations decided by SSA footprint analysis (no SMT)",
  design_ref="§6 C14"),
 "C15": dict(
  category="proof",
  text="Frame obligations plus SMT-proved pool transparency (reset/CreateNode: a node from the pool is indistinguishable from a new one; execProgram: a pooled VM is pristine again after every call, so results do not depend on earlier transforms in the process). The hidden inputs (node IDs, random declaration hashes) are read only where cache keys are built, no clock/random/uuid.New call is reachable from Read except the excluded `now`, and map iteration occurs only in two reviewed order-insensitive loops. Together with cache transparency (C13) this makes results a function of (schema, input, externals).",
  note="Assumed: json.Marshal sorts map keys; MD5/UUIDv3 collision-freeness for 'checksums differ when values differ'; a dependency consulting hidden state (goja Math.random is excluded by the statement) is invisible. Cross-process equality is the paper corollary.",
  technique="contract-style read-frame obligations decided by SSA footprint analysis (no SMT)",
  design_ref="§6 C15"),
 "C09": dict(
  category="proof",
  text="(1) Frame proof: no repository function reachable from NewTransform/Read invokes Read on an io.Reader; the input flows only into constructors of library readers. (2) Alias validity, proved with ghost state on bufio.Reader (bufGen counts reads; a slice handed out by ByteReadLine is a window valid until the next read): every line the fixedlength2 reader keeps in its buffer is either an owned copy or the window of the most recent read (readLine/popFrontLinesBuf preserve it; every column value is cut from such a line), and the old fixed-length reader cuts column values only from the line it has just read.",
  note="Assumed (and carrying most of the statement): bufio, encoding/csv, encoding/xml, encoding/json, x/text decoders, go-corelib BytesReplacingReader/scanner/StripBOM/ByteReadLine produce output that is a function of the byte content only. EDI segment buffers are not under contract.",
  technique="contract-based deductive verification with ghost buffer generations (SMT) + SSA call-graph frame obligation",
  design_ref="§6 C09"),
 "C13": dict(
  category="proof",
  text="Each function that consults a cache or pool has one postcondition that does not mention the cache, proved on every path: CreateNode (pooled and allocating path: same blank node, never-acquired ID), loadXPathExpr (cached and DisableXPathCache path: the expression compiled from exprStr), getProgram (cached and uncached path: the program compiled from js), reset/allocNode (a recycled node gets a newly issued ID, so ID-keyed caches cannot alias it); the per-record transform-result cache is only usable with ghost validity that a fresh context has and any advance of the reader destroys (ingester.Read creates the context per record: requires@ParseNode:cacheOK). getNodeJSON's postcondition '_node JSON is the node's present JSON' fails on the cached path: recorded known finding F8.",
  note="Assumed: LRU Get(k) returns what the loader returned for k in this or an earlier call (eviction only turns hits into misses); xpath.Compile and goja.Compile are functions of their source text; the linking axioms 'JSProgramCache/NodeToJSONCache are only loaded by getProgram/getNodeJSON loaders'; sync.Pool as in C12. The JavaScript VM pool (globals restored after each run) is decided under C20; the transform-result cache key soundness (node ID + declaration hash determine the value) under C02.",
  technique="contract-based deductive verification: one cache-free postcondition per function, both paths, SMT",
  design_ref="§6 C13"),
 "C04": dict(
  category="proof",
  text="Soundness direction of streaming selection, proved for all token sequences over the real XML and JSON stream readers (every function of both readers is under contract: streamCandidateCheck, wrapUpCurAndTargetCheck, add*Child, parseDelim/parseVal, parse, Read, Release): a node is delivered only if it is the current candidate, at its own end token, and the filter expression selects THAT node (wrapUp#ensures:itself, which failed on the original code: defect F5, repaired); a candidate is set only when none is pending and only to the open node (outermost wins); a rejected candidate is removed from the tree before its handle is dropped; Read releases the previously delivered node before parsing on and starts parsing with no pending candidate; the open path survives every release (ghost open-path + acquisition time stamps); Read returns exactly one of (node, nil) / (nil, err).",
  note="The xpath engine is an uninterpreted selection relation selects(root, expr, x); MatchAny/MatchNode are trusted wrappers of it. NOT decided: the completeness direction (no matching node is skipped, document order) and the refinement between the pruned incremental tree and the whole document; the position of the candidate test relative to attribute construction inside XML parse; removeLastFilterInXPath and the constructors are not yet under contract (two seeded changes in those are missed, see DESIGN.md). JSON decoder grammar (keys are strings) is assumed; decoder nesting depth is an assumed ghost of encoding/xml.",
  technique="contract-based deductive verification: quantified reader invariants with ghost open-path state, loop invariants, SMT",
  design_ref="§6 C04"),
 "C17": dict(
  category="proof",
  text="Release discipline proved for all call histories: both stream readers, their format-reader wrappers, the old fixed-length reader and the ingester: Read releases the previously delivered target (its node carries a newer ID afterwards) before parsing on, Release clears the reader's handle, a rejected candidate is removed from the tree before its handle is dropped, the readers' roots stay live; constructors establish the reader invariants.",
  note="The size bound over unbounded histories is the paper corollary of these per-call contracts. Known limitation recorded in DESIGN.md (F9): XML character data between records is attached to the enclosing element and is never removed; not yet expressed as an obligation. Hierarchy/EDI/fixed-length readers are not yet under contract for this property.",
  technique="contract-based deductive verification (SMT), ghost acquisition IDs",
  design_ref="§6 C17"),
 "C20": dict(
  category="proof",
  text="Proved over the real execProgram (both argument loops over a Go map carry invariants over the set of visited keys, the deferred clean-up closure is inlined): a call runs on a VM whose globals are the pristine table plus its own arguments, and on return every VM that existed before has exactly the globals it had before, on the normal and on the error path; a pooled VM goes back only in pristine state (precondition of sync.Pool.Put, which failed on the original code: defect F14, repaired, solver-independent replay confirmed). JavaScriptWithContext: odd argument count and non-string argument names are errors, never panics (defect F3, repaired, replay confirmed); NaN/Infinity/null/undefined results are errors, otherwise the exported value is returned. The node-JSON cache is keyed by the node's acquisition ID (call-site assertion). `_node` equals the node's present JSON fails on the cached path: known finding F8.",
  note="Assumed (specs/extern/goja.gvc): goja's abstract global table (Set/Get/Delete/GlobalObject), RunProgram does not assign globals for scripts in the statement's scope, Compile is a function of the source, Export/IsNaN/... as named; sync.Pool returns New() or a pooled VM. Concurrent mixes rest on C14's assumptions.",
  technique="contract-based deductive verification: map-iteration loop invariants with visited-set ghost, SMT; replay through in-package overlay tests",
  design_ref="§6 C20"),
 "C11": dict(
  category="proof",
  text="Every method of idr.navigator (NodeType, LocalName, Prefix, NamespaceURL, Copy, MoveToRoot, MoveToParent, MoveToNextAttribute, MoveToChild, MoveToFirst, MoveToNext, MoveToPrevious, MoveTo) is proved to refine an abstract DOM-cursor specification written from the XPath data model under the abstraction 'attribute nodes are the leading children of their element': MoveToChild lands on the first non-attribute child (recursive spec function skipAttrs, loop invariant), MoveToFirst on the first non-attribute sibling (firstSib), MoveToNextAttribute walks exactly the leading attribute run, MoveToRoot returns to the query root, MoveTo only between navigators of the same root, names and namespace data are the node's own. On the construction side, the XML reader creates an element, then its attributes, each with one text child, named by Name.Local, with the namespace prefix given by the latest declaration of the URI (updateNamespaces, proved with a recursive lastDecl specification).",
  note="Assumed: the xpath engine touches the document only through NodeNavigator (parametricity) and xmlquery's navigator satisfies the same abstract specification; engine semantics, comments/PIs (never created by idr). navigator.Value/InnerText (recursive closure) is not yet under contract. The attributes-first representation invariant over whole trees is established per token by the XML reader contracts, its induction over the token stream is not machine-checked. Known finding F16 (namespace prefix map is document-global, never un-scoped) is a limitation of the statement 'latest declaration wins' that the contract encodes as the code's behaviour; see DESIGN.md.",
  technique="contract-based deductive verification: refinement of an abstract cursor specification, recursive spec functions, loop invariants, SMT",
  design_ref="§6 C11"),
 "C18": dict(
  category="proof",
  text="Proved: WrapEncoding, verified in the state right after its package initialiser has built the encoding table (symbolic execution of the initialiser, dynamic call resolved by case split over the table's closures), returns the input itself for an absent or utf-8 encoding, the input decoded with exactly charmap.ISO8859_1 for iso-8859-1 and exactly charmap.Windows1252 for windows-1252, and the input for anything else; a frame obligation shows only the initialiser ever writes a table of that type; NewTransform hands the schema handler StripBOM(WrapEncoding(input)) in that nesting (call-site assertion), fails when StripBOM fails, and otherwise returns a transform satisfying the object invariant.",
  note="Assumed: x/text charmap decoders implement the named code pages byte for byte and are streaming homomorphisms; go-corelib StripBOM removes exactly one leading U+FEFF; everything the statement says about byte values lies in those assumptions. The JSON-schema enum that makes 'anything else' unreachable is not used.",
  technique="contract-based deductive verification with symbolic package initialisation, SMT; SSA frame obligation",
  design_ref="§6 C18"),
 "C05": dict(
  category="proof",
  text="Partial, per step. The explicit-stack matcher steps of the flat-file HierarchyReader (readRec, stackTop, shrinkStack, growStack, recNext, recDone, Read) and of the EDI reader (SegDecl.minOccurs/maxOccurs, stackTop, shrinkStack, segNext, segDone, Read) are proved, for all stacks and declarations, to: fail with the fatal error class exactly when an instance count is below the declared minimum at the point the matcher leaves a declaration (minErr), never return a continuable error for a structural failure (class), pop exactly one frame or keep the stack (shrinks/keeps), count an instance once (counted), keep the node-tree invariant, and never pop the root. For the flat-file matcher the stack representation invariant stackOK (stack[k] is the child of stack[k-1] selected by curChild, entries below the top hold live nodes ordered by age, declaration depth grows by one per level, a pending target stems from the top entry) is proved to be preserved by recNext and recDone, which also shows recDone's two explicit panics unreachable. Read returns a node iff no error and io.EOF only when the record reader has no more data and only the root is on the stack; the fixedlength2 record reader refines the RecReader interface contract (io.EOF only with an empty line buffer: no buffered line is dropped).",
  note="NOT decided by this check: agreement of the whole state machine with the declarative greedy-matcher semantics over all hierarchies and unit sequences (a whole-history refinement); that HierarchyReader.Read re-establishes stackOK at its call sites (assumed there); 'no unit consumed twice'; the EDI scanner's treatment of an unterminated trailing segment (finding F6, design round). Assumed: RecDecl/RecReader implementations meet their interface contracts; declarations form a tree with at most one target and min <= max (what the validators enforce).",
  technique="contract-based deductive verification: per-step postconditions and a quantified stack invariant over go/ssa + SMT",
  design_ref="§6 C05"),
 "C06": dict(
  category="proof",
  text="Proved for all inputs: (csv2) ColumnDecl.lineToColumnValue returns exactly the field at the declared index of the line's record (empty beyond the row), lineMatch selects by line_index/line_pattern, NewReader passes the first rune of the delimiter to encoding/csv, readLine copies the decoder's reused record into the reader-owned buffer and popFrontLinesBuf keeps the buffer's index arithmetic (representation invariant bufOK); (fixed-length, both packages) lineToColumnValue returns exactly the bytes of runes [start_pos-1, start_pos-1+length) of the line, against the recursive specification runeEnd written from the statement; (fixedlength2) every buffered line keeps its text across further reads and buffer compaction, an envelope's node is built from its own first n buffered lines only, lines are delivered in order; (old csv) a header that is unreadable, too short or mismatching is the fatal ErrInvalidHeader before any record, and each declared column's text node holds exactly record[i].",
  note="RFC-4180 splitting itself is encoding/csv's and UTF-8 decoding utf8.DecodeRune's (assumed; ghost lastField/lastLen and spec width name their results). NOT under contract: csv2 linesToNode and header/footer matching. Schema-validation facts (non-nil column entries, valid regular expressions, rows >= 1) are preconditions.",
  technique="contract-based deductive verification: buffer representation invariant with quantified element heaps, loop invariants, SMT",
  design_ref="§6 C06"),
 "C16": dict(
  category="proof",
  text="Per-call proof on the JSON, XML, csv2, fixedlength2 and old fixed-length paths that a source failure is fatal in the call that hits it: ghost srcFails(r) counts non-EOF errors of the underlying decoder/bufio reader; every layer (stream reader parse/Read, format-reader wrapper, readLine, record/envelope readers, HierarchyReader.Read, reader.Read) ensures 'srcFails grew ==> the returned error is non-nil, not io.EOF and of the reader's fatal class' and 'every error returned is io.EOF or the fatal class'; the seven IsContinuableError classifiers are proved to reject exactly those classes; transform.Read latches a non-continuable error (C01). The old csv reader FAILS this (known finding F4b, two obligations, replay test in findings/).",
  note="Not under contract (NOT claimed): the EDI readers. 'Results before the fault equal the fault-free run' is the paper corollary of determinism (C15). Assumed: decoder contracts in specs/extern (a decoder error is the source's error or a data error; srcFails bookkeeping).",
  technique="contract-based deductive verification with a ghost failure counter on the source, SMT",
  design_ref="§6 C16"),
 "C08": dict(
  category="proof",
  text="Partial. Input side proved for all token sequences: each JSON token becomes exactly the node the statement describes (addTextChild: a number's text is strconv's shortest 'f' rendering of the float64 token, a boolean's is true/false, a string's is the string, null is empty, with the matching value-type flag; addElementChild: name and container flag; parseVal hands the token on unchanged and names a member element by the key token) and each XML token likewise (addNonTextChild: local name, namespace URI and the prefix bound to it, the xmlns exception, an undeclared namespace is an error; addTextChild: a text node with exactly the given text, never dropped; parse passes every attribute's own name and value and attaches attributes before children). Output side: isChildArray decides array-ness of a JSON node by its type flag alone (F7 fixed); isChildText is true exactly when the node has a text child and no element child (attributes ignored), against two recursive predicates over the sibling chain.",
  note="NOT decided: the recursive output functions (nodeToInterface, JSONify2, InnerText) as a whole, XML namespace scoping (finding F16 of the design round: the URI-to-prefix map is document-global), duplicate JSON keys. strconv.FormatFloat/FormatBool, encoding/json and encoding/xml token contents are assumed.",
  technique="contract-based deductive verification: per-token postconditions and caller-side assertions, SMT",
  design_ref="§6 C08"),
 "C07": dict(
  category="proof",
  text="Partial. Proved for all tokens: readToken splits a segment token into elements, repetitions and components with the declared delimiters and EVERY split honours the release character (caller-side assertions on each ByteSplitWithEsc call; a split that no longer goes through it is reported), the raw segment refers to the token itself, its name is the first piece, a nameless segment is the fatal ErrInvalidEDI; rawSegToNode never writes a byte of the raw segment (every byte array existing at entry is unchanged: F15 fixed), unescapes each element value with the reader's release character, and reports a missing element without default as ErrInvalidEDI; the tokenizer's Read returns io.EOF or ErrInvalidEDI only.",
  note="Assumed (specs/extern): go-corelib ByteSplitWithEsc/ByteUnescape/NewScannerByDelim3 semantics (pieces are sub-slices of the input; unescaped() is ByteUnescape's documented function; every token the scanner yields ends with the delimiter). NOT decided: that the concatenation of tokens is the input (finding F6 of the design round: an unterminated trailing segment is dropped by the scanner), rune positions in messages, ISA-driven delimiters. That each element text node holds exactly the unescaped data is checked at the ByteUnescape call, not at the CreateNode call.",
  technique="contract-based deductive verification: caller-side assertions at every tokenizer call, byte-heap frame postcondition, SMT",
  design_ref="§6 C07"),
 "C02": dict(
  category="proof",
  text="Narrow, partial. Proved: (1) Decl.deepCopy / CustomFuncDecl.deepCopy copy EVERY schema-visible scalar field (const, external, xpath, custom_parse, template, type, no_trim, keep_empty_or_null, custom_func name and ignore_error, presence of xpath_dynamic/custom_func, argument count) and write fresh objects only - template inlining and the declaration hash (the per-record result-cache key) are both computed from this copy; (2) every record is evaluated with an evaluation context created for that record (NewParseCtx is fresh with caching on; ingester.Read creates it per call and ParseNode requires a context whose cache is valid for the current heap); (3) after validation an array declaration's children are its element declarations in declaration order, which is the order parseArray emits them in (F2 fixed: the children were sorted by fqdn string); (4) xpath selection of a declaration: MatchSingle returns the node itself for '.', the single selected node, ErrNoMatch for none and ErrMoreThanExpected for several, MatchAll returns all selected nodes in the engine's order (loop invariant over the iterator); a declaration's own static xpath is applied exactly when it is not FINAL_OUTPUT and not an array element, no match yields 'no value' (nil, nil), several matches an error.",
  note="(3) is proved against an ASSUMED frame of the recursive validateDecl (trusted contract: validation writes only the subtree of the declaration it is given, the hash table and fresh template copies; the declaration tree is a tree). The xpath engine's selection (selCount/selAt) is uninterpreted; QueryIter/nodeFromIter are the trusted binding to its iterator. NOT decided by this check: the rest of the evaluation semantics (ParseNode and the per-kind parse functions, xpath_dynamic, normalisation and type conversion in value.go), the cache key's blindness to anchoring (F1, a design-round finding that is not repaired).",
  technique="contract-based deductive verification: field-by-field postconditions with an explicit frame over recursive calls, ghost cache validity, loop invariant over the element/children slices, SMT",
  design_ref="§6 C02"),
 "C03": dict(
  category="proof",
  text="Partial. (1) Panic-freedom: for 131 functions under contract (stream readers, flat-file, fixed-length, csv, EDI, node tree, navigator, date-time, javascript, transform.Read) every generated safety obligation is discharged for all inputs satisfying the function's precondition: no nil dereference, no index or slice bound violation, no failing type assertion, no reachable explicit panic, no division by zero. (2) Termination of loops: 21 loops carry a proved variant (obligations loopK.decreases: rune slicing, buffer compaction, the xpath backward scan incl. its nested quote loop, javascript argument loop, envelope row loops, the old csv reader's row-skipping loop under a delimiter the decoder accepts - which validateFileDecl is proved to establish, F4a fixed - and - under the stated assumption that every input is finite, ghost inputLeft - the token/line consuming loops of the JSON, XML, fixed-length and EDI readers); 9 range loops terminate by construction. (3) The error-class postconditions whose violation makes the documented read loop spin (a fatal condition reported as a continuable error). F3, F11, F12, F13 (panics escaping Read) and F4a (hang on a delimiter the csv decoder refuses) were found by these obligations and are fixed; the reflection call of custom functions is covered by assumed contracts on reflect (argument count must fit; Elem only of the variadic tail).",
  note="NOT decided: termination of 7 loops listed in evidence (sibling-chain walks, the hierarchy readers' main loops), recursion (no recursion variants: seeded change C03_a2, unbounded template recursion, is missed), functions not under contract (most of the transform package's evaluation code); assignability of custom-function argument types to parameter types (checked by the repaired code, not modelled in the reflect contracts). 13 contracted functions with still-undischarged safety obligations are excluded and named in DESIGN.md 0.2. Preconditions that come from schema validation are assumed. 'Finite input' is an assumption on the library readers (a successful read strictly decreases inputLeft >= 0).",
  technique="contract-based deductive verification: automatically generated safety obligations per SSA instruction, loop variants, SMT",
  design_ref="§6 C03"),
}

NOT_BUILT = "check not built yet in this session (planned, see DESIGN.md §6); not claimed until its obligations discharge on the unchanged tree"
NA = {}

props = [json.loads(l)["id"] for l in open("/verif/properties.jsonl")]
checks = []
for pid in props:
    if pid not in CLAIMS: continue
    c = CLAIMS[pid]
    checks.append({
      "property_id": pid,
      "quick_cmd": f"./run check -property {pid} -tier quick",
      "thorough_cmd": f"./run check -property {pid} -tier thorough",
      "evidence_file": f"/verif/evidence/{pid}.json",
      "replay_cmd_template": "./run replay {path}",
      "engine": "gvc",
      "level_claimed": {"category": c["category"], "text": c["text"], "design_ref": c["design_ref"]},
      "level_note": c["note"],
      "technique": c["technique"],
    })
na = [{"property_id": p, "reason": NA.get(p, NOT_BUILT)} for p in props if p not in CLAIMS]
commits = subprocess.run(["git","-C","/repo","log","--format=%H %s"],capture_output=True,text=True).stdout.splitlines()
hook_commits = [c.split()[0] for c in commits if " verif:" in " "+c.split(" ",1)[1] or c.split(" ",1)[1].startswith("verif:")]
m = {
 "version": 1,
 "setup_cmd": "./setup.sh",
 "hooks": {"guard": "verif",
   "enable": "-tags verif (contract files verif_contracts.go are comment-only and compiled only with the tag; no executable hook exists)",
   "baseline_off_cmd": "cd /repo && GOFLAGS=-mod=mod GOPROXY=off GOSUMDB=off go test -vet=off -count=1 ./...",
   "source_commits": hook_commits, "add_only": True},
 "engines": [{"name": "gvc", "path": "/verif/gvc", "serves_properties": sorted(CLAIMS),
   "kind_free_text": "self-written verification-condition generator for Go: symbolic execution of go/ssa (naive form) built from /repo's working tree against //@ contracts kept in /repo/**/verif_contracts.go (build tag verif) and assumed contracts in /verif/specs/extern; obligations discharged by z3 5.1 / cvc5 1.0 / z3 4.8; whole-program frame obligations by SSA footprint analysis"}],
 "checks": checks,
 "not_applicable": na,
 "notes": "See DESIGN.md. Known findings: known_findings.txt. Seeded breakages: seeded/. Self-test corpus: selftest/.",
}
json.dump(m, open("/verif/MANIFEST.json","w"), indent=1)
print("manifest:", len(checks), "checks,", len(na), "not_applicable")
