#!/usr/bin/env python3
"""Regenerates /verif/MANIFEST.json from the table below (kept here so the manifest stays valid and consistent)."""
import json, subprocess

CLAIMS = {
 "C01": dict(
  category="proof",
  text="Deductive proof, for all inputs and call histories, of the postconditions of the real transform.Read / RawRecord (result trichotomy, terminal latch, bytes nil on error, RawRecord gating), of ingester.Read / IsContinuableError (non-nil raw record and bytes on success; io.EOF never continuable) and of the seven per-format IsContinuableError classifiers, plus the history lemma C01_latch over the contract of Read. transform.Read is verified against the Ingester interface contract only, so the result covers caller-supplied handlers that meet that contract.",
  note="Assumed: json.Marshal returns non-nil bytes when err == nil (valid UTF-8 JSON is json.Marshal's own contract, not re-proved); errors.New / io.EOF dynamic type; caller-supplied Ingester/FormatReader implementations satisfy their interface contracts and do not call back into the calling package; ParseNode's write footprint (SSA frame analysis); sequential execution.",
  technique="contract-based deductive verification: WP/symbolic execution over go/ssa + SMT (z3/cvc5)",
  design_ref="§6 C01"),
 "C19": dict(
  category="proof",
  text="Deductive proof over the real customfuncs date-time functions, for all argument values: parseDateTime computes exactly the documented zone decision table (a zone in the text wins over fromTZ; fromTZ overwrites keeping the wall clock; toTZ converts an instant that has a zone) as a function pdT of the dependencies' results, with lemmas restating the table; empty input gives empty output; every callee error gives an error and the empty string; dateTimeToEpoch returns sec (SECOND) or sec*1000 + floor(nsec/1e6) (MILLISECOND) of that instant and epochToDateTimeRFC3339 formats an instant whose second is floor(n/1000); every integer operation in the two epoch functions carries an int64-range obligation (checks overflow), so the result is exact over the whole year range 1..9999.",
  note="Assumed (specs/extern/time.gvc): abstract time (sec, nsec in [0,1e9), wall, zone); time.Unix normalisation, Unix/UnixNano/Nanosecond/In/Format/Parse; go-corelib SmartParse returns an instant in years 0..9999, OverwriteTZ keeps the wall clock, ConvertTZ keeps the instant; strconv.ParseInt/FormatInt inverse; layout parsing and the IANA database are entirely inside those assumptions.",
  technique="contract-based deductive verification: WP/symbolic execution over go/ssa + SMT, integer arithmetic with explicit int64 range obligations",
  design_ref="§6 C19"),
}

NOT_BUILT = "check not built yet in this session (planned, see DESIGN.md §6); not claimed until its obligations discharge on the unchanged tree"
NA = {}

props = [json.loads(l)["id"] for l in open("/verif/properties.jsonl")]
checks = []
for pid in props:
    if pid not in CLAIMS: continue
    c = CLAIMS[pid]
    checks.append({
      "property_id": pid,
      "quick_cmd": f"./run check -property {pid} -tier quick",
      "thorough_cmd": f"./run check -property {pid} -tier thorough",
      "evidence_file": f"/verif/evidence/{pid}.json",
      "replay_cmd_template": "./run replay {path}",
      "engine": "gvc",
      "level_claimed": {"category": c["category"], "text": c["text"], "design_ref": c["design_ref"]},
      "level_note": c["note"],
      "technique": c["technique"],
    })
na = [{"property_id": p, "reason": NA.get(p, NOT_BUILT)} for p in props if p not in CLAIMS]
commits = subprocess.run(["git","-C","/repo","log","--format=%H %s"],capture_output=True,text=True).stdout.splitlines()
hook_commits = [c.split()[0] for c in commits if " verif:" in " "+c.split(" ",1)[1] or c.split(" ",1)[1].startswith("verif:")]
m = {
 "version": 1,
 "setup_cmd": "./setup.sh",
 "hooks": {"guard": "verif",
   "enable": "-tags verif (contract files verif_contracts.go are comment-only and compiled only with the tag; no executable hook exists)",
   "baseline_off_cmd": "cd /repo && GOFLAGS=-mod=mod GOPROXY=off GOSUMDB=off go test -vet=off -count=1 ./...",
   "source_commits": hook_commits, "add_only": True},
 "engines": [{"name": "gvc", "path": "/verif/gvc", "serves_properties": sorted(CLAIMS),
   "kind_free_text": "self-written verification-condition generator for Go: symbolic execution of go/ssa (naive form) built from /repo's working tree against //@ contracts kept in /repo/**/verif_contracts.go (build tag verif) and assumed contracts in /verif/specs/extern; obligations discharged by z3 5.1 / cvc5 1.0 / z3 4.8; whole-program frame obligations by SSA footprint analysis"}],
 "checks": checks,
 "not_applicable": na,
 "notes": "See DESIGN.md. Known findings: known_findings.txt. Seeded breakages: seeded/. Self-test corpus: selftest/.",
}
json.dump(m, open("/verif/MANIFEST.json","w"), indent=1)
print("manifest:", len(checks), "checks,", len(na), "not_applicable")
