#!/bin/bash
# Must-fail corpus: applies each selftest/*.diff to /repo, runs the named property's quick check, expects a VIOLATION, restores.
# Also checks the harmless edits in selftest/harmless/*.diff produce NO violation. Run after every engine change.
cd /verif
git -C /repo diff --quiet || { echo "/repo has uncommitted changes"; exit 2; }
rc=0
while read name prop file; do
  [ -z "$name" ] && continue
  git -C /repo apply /verif/selftest/$name.diff || { echo "STALE   $name (does not apply)"; rc=1; continue; }
  if (cd /repo && GOFLAGS=-mod=mod GOPROXY=off GOSUMDB=off GOTOOLCHAIN=local go build ./... >/dev/null 2>&1); then
    out=$(./run check -property $prop -tier quick 2>&1)
    n=$(echo "$out" | grep -c "^VIOLATION")
    if [ "$n" -gt 0 ]; then echo "CAUGHT  $name by $prop ($(echo "$out" | grep '^VIOLATION' | head -1 | sed 's/.*replay=.*\///; s/\.json.*//'))"; else echo "MISSED  $name by $prop"; rc=1; fi
  else
    echo "NOBUILD $name"; rc=1
  fi
  git -C /repo checkout -- .
done < selftest/INDEX
if [ -f selftest/harmless/INDEX ]; then
while read name prop file; do
  [ -z "$name" ] && continue
  git -C /repo apply /verif/selftest/harmless/$name.diff || { echo "STALE   harmless/$name"; rc=1; continue; }
  out=$(./run check -property $prop -tier quick 2>&1)
  n=$(echo "$out" | grep -c "^VIOLATION")
  if [ "$n" -eq 0 ]; then echo "QUIET   harmless/$name under $prop"; else echo "ALARM   harmless/$name under $prop: $(echo "$out" | grep '^VIOLATION' | head -2)"; rc=1; fi
  git -C /repo checkout -- .
done < selftest/harmless/INDEX
fi
exit $rc
