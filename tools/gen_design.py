#!/usr/bin/env python3
# Splices design/as_built.md (with the seed table generated from seeded/RESULTS.txt, the saved output of tools/seed_all.sh)
# into DESIGN.md as section 0.
import re
ab=open('/verif/design/as_built.md').read()
rows=[]
try:
    for l in open('/verif/seeded/RESULTS.txt'):
        m=re.match(r'(CAUGHT|MISSED|NOCHECK)\s+(\S+)\s*(.*)',l.strip())
        if m: rows.append(m.groups())
except FileNotFoundError:
    pass
tbl="| seed | result | reported by (first obligation) |\n|------|--------|-------------------------------|\n"
for st,seed,rest in rows:
    tbl+=f"| {seed} | {st} | {rest.replace('|','/')} |\n"
ab=re.sub(r'<!-- SEEDTABLE -->.*?<!-- /SEEDTABLE -->', '<!-- SEEDTABLE -->\n'+tbl+'<!-- /SEEDTABLE -->', ab, flags=re.S)
d=open('/verif/DESIGN.md').read()
marker='--------------------------------------------------------------------------------------------------\n\n## 1. What is being built'
s0=d.index('## 0. As built'); e0=d.index(marker)
d=d[:s0]+ab.rstrip('\n')+'\n\n'+d[e0:]
open('/verif/DESIGN.md','w').write(d)
print("DESIGN.md section 0 regenerated;", len(rows), "seed rows")
