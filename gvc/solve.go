package main

import (
	"regexp"
	"bytes"
	"context"
	"fmt"
	"os"
	"os/exec"
	"path/filepath"
	"strings"
	"sync"
	"time"
)

type Verdict struct {
	Status  string // discharged | failed | vacuous | covered
	Backend string
	Seconds float64
	Output  string // solver output of the deciding / last run
	Model   string
	File    string
	Tried   []string
}

func smtText(o *Oblig, lits []*Term, wantModel bool) string {
	var b strings.Builder
	b.WriteString("; obligation " + o.Name + "\n; " + o.Desc + "\n; path " + o.Path + " " + o.Pos + "\n")
	b.WriteString("(set-option :produce-models true)\n(set-logic ALL)\n(declare-sort Str 0)\n(declare-sort Flt 0)\n")
	all := append([]*Term{}, lits...)
	all = append(all, o.Hyps...)
	all = append(all, o.Axioms...)
	all = append(all, o.Goal)
	decls, _ := collectDecls(all)
	for _, d := range decls {
		b.WriteString(d + "\n")
	}
	for _, l := range lits {
		b.WriteString("(assert " + l.String() + ")\n")
	}
	for _, a := range o.Axioms {
		b.WriteString("(assert " + a.String() + ")\n")
	}
	// quantified hypotheses first, ground facts after them: measured to be the ordering the solvers cope with best
	for _, h := range o.Hyps {
		if hasQuant(h) {
			b.WriteString("(assert " + h.String() + ")\n")
		}
	}
	for _, h := range o.Hyps {
		if !hasQuant(h) {
			b.WriteString("(assert " + h.String() + ")\n")
		}
	}
	b.WriteString("(assert (not " + o.Goal.String() + "))\n(check-sat)\n")
	if wantModel {
		ws := witnessTerms(append(append([]*Term{}, o.Hyps...), o.Goal))
		if len(ws) > 0 {
			b.WriteString("(get-value (")
			for i, w := range ws {
				if i > 0 {
					b.WriteString(" ")
				}
				b.WriteString(w.String())
			}
			b.WriteString("))\n")
		}
	}
	return b.String()
}

// witnessTerms: scalar constants and applications of uninterpreted functions whose values make a counterexample readable.
func witnessTerms(ts []*Term) []*Term {
	seen := map[string]bool{}
	var out []*Term
	var walk func(t *Term, underQ bool)
	walk = func(t *Term, underQ bool) {
		if len(out) > 400 {
			return
		}
		if len(t.Bound) > 0 {
			return
		}
		if (t.Var || (t.UF != nil && len(t.Args) > 0)) && (t.Sort == SInt || t.Sort == SBool) {
			k := t.String()
			if !seen[k] && len(k) < 400 {
				seen[k] = true
				out = append(out, t)
			}
		}
		for _, a := range t.Args {
			walk(a, underQ)
		}
	}
	for _, t := range ts {
		walk(t, false)
	}
	return out
}

func obligQuantFree(o *Oblig, lits []*Term) bool {
	for _, h := range o.Hyps {
		if hasQuant(h) {
			return false
		}
	}
	for _, h := range lits {
		if hasQuant(h) {
			return false
		}
	}
	for _, h := range o.Axioms {
		if hasQuant(h) {
			return false
		}
	}
	return !hasQuant(o.Goal)
}

type backend struct {
	name string
	argv func(file string, tsec int) []string
}

var backends = []backend{
	{"z3-new", func(f string, t int) []string { return []string{"z3-new", fmt.Sprintf("-T:%d", t), f} }},
	{"cvc5", func(f string, t int) []string { return []string{"cvc5", fmt.Sprintf("--tlimit=%d", t*1000), f} }},
	{"z3", func(f string, t int) []string { return []string{"z3", fmt.Sprintf("-T:%d", t), f} }},
	{"z3-new-nombqi", func(f string, t int) []string {
		return []string{"z3-new", fmt.Sprintf("-T:%d", t), "smt.mbqi=false", f}
	}},
}

// runSolver runs one solver on one query. The budget tsec is CPU seconds (ulimit -t in the child), not wall-clock time: the same
// query gets the same verdict whether the machine is idle or heavily loaded (a loaded machine only makes the run take longer).
// The solver's own wall-clock limit and the context deadline are generous guards (8x).
func runSolver(b backend, file string, tsec int) (first string, out string, secs float64) {
	wall := tsec * 8
	argv := b.argv(file, wall)
	ctx, cancel := context.WithTimeout(context.Background(), time.Duration(wall+10)*time.Second)
	defer cancel()
	sh := []string{"-c", fmt.Sprintf("ulimit -t %d; exec \"$@\"", tsec+1), "gvc-solver"}
	cmd := exec.CommandContext(ctx, "/bin/bash", append(sh, argv...)...)
	var buf bytes.Buffer
	cmd.Stdout = &buf
	cmd.Stderr = &buf
	t0 := time.Now()
	cmd.Run()
	secs = time.Since(t0).Seconds()
	out = buf.String()
	for _, line := range strings.Split(out, "\n") {
		line = strings.TrimSpace(line)
		if line == "" || strings.HasPrefix(line, "WARNING") || strings.HasPrefix(line, "(warning") {
			continue
		}
		first = line
		break
	}
	return
}

// discharge decides one obligation instance.
func discharge(o *Oblig, lits []*Term, workDir string, idx int, tsec int, allAgree bool) *Verdict {
	v := &Verdict{}
	if !o.Cover && o.Goal == tTrue {
		v.Status, v.Backend = "discharged", "simplifier"
		return v
	}
	qf := obligQuantFree(o, lits)
	text := smtText(o, lits, qf && !o.Cover)
	file := filepath.Join(workDir, fmt.Sprintf("%s.%d.smt2", smtIdent(o.Name), idx))
	os.WriteFile(file, []byte(text), 0o644)
	v.File = file
	if o.Cover {
		first, out, secs := runSolver(backends[0], file, 3)
		v.Seconds = secs
		v.Backend = backends[0].name
		v.Output = truncate(out, 2000)
		if first == "unsat" && o.PreN > 0 {
			// unsat after the call: vacuous only if the path was feasible before the callee's postconditions were assumed
			pre := *o
			pre.Hyps = o.Hyps[:o.PreN]
			pre.PreN = 0
			f2 := file + ".pre.smt2"
			os.WriteFile(f2, []byte(smtText(&pre, lits, false)), 0o644)
			first2, _, secs2 := runSolver(backends[0], f2, 5)
			v.Seconds += secs2
			rmQuery(f2)
			if first2 == "unsat" {
				v.Status = "covered" // infeasible path, nothing to say
				rmQuery(file)
				return v
			}
			v.Status = "vacuous"
		} else if first == "unsat" {
			v.Status = "vacuous"
		} else {
			v.Status = "covered"
			rmQuery(file)
		}
		return v
	}
	nUnsat := 0
	// Quantifier instantiation can be derailed by hypotheses the goal does not need. Dropping hypotheses only weakens what is
	// assumed, so a proof from a subset is a proof: retry with each quantified hypothesis left out in turn (in parallel).
	subsetsTried := false
	trySubsets := func(maxHyps, budget int) bool {
		var qidx []int
		for i, h := range o.Hyps {
			if hasQuant(h) {
				qidx = append(qidx, i)
			}
		}
		if len(qidx) == 0 || len(qidx) > maxHyps {
			return false
		}
		subsetsTried = true
		type res struct {
			ok   bool
			secs float64
		}
		// every single hypothesis left out, and - when there are few - every pair
		var drops [][2]int
		for _, d := range qidx {
			drops = append(drops, [2]int{d, -1})
		}
		if len(qidx) <= 9 {
			for a := 0; a < len(qidx); a++ {
				for b := a + 1; b < len(qidx); b++ {
					drops = append(drops, [2]int{qidx[a], qidx[b]})
				}
			}
		}
		ch := make(chan res, len(drops))
		sem := make(chan bool, 12)
		for _, dr := range drops {
			go func(dr [2]int) {
				sem <- true
				defer func() { <-sem }()
				o2 := *o
				o2.Hyps = nil
				for i, h := range o.Hyps {
					if i != dr[0] && i != dr[1] {
						o2.Hyps = append(o2.Hyps, h)
					}
				}
				f2 := fmt.Sprintf("%s.drop%d_%d.smt2", file, dr[0], dr[1])
				os.WriteFile(f2, []byte(smtText(&o2, lits, false)), 0o644)
				first, _, secs := runSolver(backends[0], f2, budget)
				rmQuery(f2)
				ch <- res{first == "unsat", secs}
			}(dr)
		}
		proved := false
		for range drops {
			r := <-ch
			v.Seconds += r.secs
			if r.ok {
				proved = true
			}
		}
		v.Tried = append(v.Tried, fmt.Sprintf("z3-new(subsets):%v", proved))
		if proved {
			v.Status = "discharged"
			v.Backend = "z3-new (subset of hypotheses)"
			rmQuery(file)
		}
		return proved
	}
	// staged attempts: each stage only drops or instantiates hypotheses, so a proof at any stage is a proof of the obligation
	staged := func(scale int) bool {
		// attempt 1: the full obligation with a short budget (most discharge at once)
		first, out, secs := runSolver(backends[0], file, 5*scale)
		v.Seconds += secs
		if first == "unsat" {
			v.Status, v.Backend = "discharged", backends[0].name
			rmQuery(file)
			return true
		}
		if first == "sat" {
			v.Status, v.Backend, v.Output = "failed", backends[0].name, truncate(out, 20000)
			return true
		}
		// the quantifier-free version built by ground instantiation (see instantiate.go): cheap when it works, so it is tried early
		// with a short budget and once more at the end with a long one
		groundState := ""
		tryGround := func(budget int) bool {
			g := groundVersion(o, lits)
			if g == nil {
				return false
			}
			var qfLits []*Term
			for _, l := range lits {
				if !hasQuant(l) {
					qfLits = append(qfLits, l)
				}
			}
			f2 := file + ".ground.smt2"
			os.WriteFile(f2, []byte(smtText(g, qfLits, false)), 0o644)
			first, _, secs := runSolver(backends[0], f2, budget)
			v.Seconds += secs
			v.Tried = append(v.Tried, "z3-new(ground):"+first)
			groundState = first
			rmQuery(f2)
			if first == "unsat" {
				v.Status = "discharged"
				v.Backend = "z3-new (ground instances)"
				rmQuery(file)
				return true
			}
			return false
		}
		if tryGround(6 * scale) {
			return true
		}
		// attempt 1b: only the quantified hypotheses that share a symbol with the goal (dropping hypotheses only weakens what is
		// assumed, so a proof from a subset is a proof); unrelated invariants otherwise derail instantiation
		if o0 := relevantVersionN(o, -1); o0 != nil {
			f2 := file + ".rel0.smt2"
			os.WriteFile(f2, []byte(smtText(o0, lits, false)), 0o644)
			first, _, secs := runSolver(backends[0], f2, 4*scale)
			v.Seconds += secs
			v.Tried = append(v.Tried, "z3-new(relevant-exact):"+first)
			rmQuery(f2)
			if first == "unsat" {
				v.Status = "discharged"
				v.Backend = "z3-new (relevant hypotheses)"
				rmQuery(file)
				return true
			}
		}
		if o2 := relevantVersion(o); o2 != nil {
			f2 := file + ".rel.smt2"
			os.WriteFile(f2, []byte(smtText(o2, lits, false)), 0o644)
			first, _, secs := runSolver(backends[0], f2, 8*scale)
			v.Seconds += secs
			v.Tried = append(v.Tried, "z3-new(relevant):"+first)
			rmQuery(f2)
			if first == "unsat" {
				v.Status = "discharged"
				v.Backend = "z3-new (relevant hypotheses)"
				rmQuery(file)
				return true
			}
			if o3 := relevantVersionN(o, 1); o3 != nil && len(o3.Hyps) != len(o2.Hyps) {
				os.WriteFile(f2, []byte(smtText(o3, lits, false)), 0o644)
				first, _, secs := runSolver(backends[0], f2, 8*scale)
				v.Seconds += secs
				v.Tried = append(v.Tried, "z3-new(relevant+1):"+first)
				rmQuery(f2)
				if first == "unsat" {
					v.Status = "discharged"
					v.Backend = "z3-new (relevant hypotheses)"
					rmQuery(file)
					return true
				}
			}
		}
		// attempt 1c: case split on the most frequent ground if-then-else condition (e.g. "append reallocates or not"): both
		// cases proved is a proof of the obligation
		if cases := caseSplit(o); cases != nil {
			all := true
			for ci, oc := range cases {
				f2 := fmt.Sprintf("%s.case%d.smt2", file, ci)
				os.WriteFile(f2, []byte(smtText(oc, lits, false)), 0o644)
				first, _, secs := runSolver(backends[0], f2, 6*scale)
				v.Seconds += secs
				if first != "unsat" {
					if rv := relevantVersion(oc); rv != nil {
						os.WriteFile(f2, []byte(smtText(rv, lits, false)), 0o644)
						first, _, secs = runSolver(backends[0], f2, 6*scale)
						v.Seconds += secs
					}
				}
				rmQuery(f2)
				if first != "unsat" {
					all = false
					break
				}
			}
			v.Tried = append(v.Tried, fmt.Sprintf("z3-new(case split):%v", all))
			if all {
				v.Status = "discharged"
				v.Backend = "z3-new (case split)"
				rmQuery(file)
				return true
			}
		}
		if !o.ExpectFail && trySubsets(8, 8*scale) {
			return true
		}
		if groundState == "timeout" || groundState == "unknown" {
			if tryGround(20 * scale) {
				return true
			}
		}
		return false
	}
	if !qf && !allAgree {
		if staged(1) {
			return v
		}
	}
	portfolio := backends[:3]
	if o.ExpectFail && !allAgree && !qf {
		portfolio = nil
	}
	for _, b := range portfolio {
		first, out, secs := runSolver(b, file, tsec)
		v.Seconds += secs
		v.Tried = append(v.Tried, b.name+":"+first)
		switch first {
		case "unsat":
			nUnsat++
			if v.Backend == "" {
				v.Backend = b.name
			}
			if !allAgree {
				v.Status = "discharged"
				rmQuery(file)
				return v
			}
		case "sat":
			v.Status = "failed"
			v.Backend = b.name
			v.Output = truncate(out, 20000)
			if qf {
				v.Model = out
			}
			return v
		default:
			v.Output = truncate(out, 2000)
		}
	}
	if allAgree && nUnsat == 0 && !qf && v.Status != "failed" {
		// thorough tier: no back end decided the whole query within its budget; the staged attempts of the quick tier (with
		// larger budgets) are still sound proofs
		if staged(3) {
			return v
		}
	}
	if nUnsat == 0 && !qf && !o.ExpectFail && !subsetsTried {
		if trySubsets(24, 6) {
			return v
		}
	}
	if nUnsat == 0 && !qf {
		// undischarged and quantified: look for a candidate counterexample ignoring the quantified hypotheses
		o2 := *o
		o2.Hyps = nil
		for _, h := range o.Hyps {
			if !hasQuant(h) {
				o2.Hyps = append(o2.Hyps, h)
			}
		}
		o2.Axioms = nil
		var l2 []*Term
		for _, l := range lits {
			if !hasQuant(l) {
				l2 = append(l2, l)
			}
		}
		if !hasQuant(o2.Goal) {
			f2 := file + ".qf.smt2"
			os.WriteFile(f2, []byte(smtText(&o2, l2, true)), 0o644)
			first, out, secs := runSolver(backends[0], f2, 5)
			v.Seconds += secs
			if first == "sat" {
				v.Model = out
				v.Output += "\ncandidate model (quantified hypotheses ignored):\n" + truncate(out, 20000)
			}
			rmQuery(f2)
		}
	}
	if allAgree && nUnsat == 3 {
		v.Status = "discharged"
		v.Backend = "z3-new+cvc5+z3"
		rmQuery(file)
		return v
	}
	if allAgree && nUnsat > 0 {
		// at least one back end proved it and none refuted it: discharged, disagreement recorded
		v.Status = "discharged"
		v.Backend += " (others: " + strings.Join(v.Tried, ",") + ")"
		rmQuery(file)
		return v
	}
	v.Status = "failed"
	return v
}

func truncate(s string, n int) string {
	if len(s) > n {
		return s[:n] + "\n...[truncated]"
	}
	return s
}

type job struct {
	o    *Oblig
	lits []*Term
	idx  int
}

func dischargeAll(jobs []job, workDir string, tsec int, allAgree bool, workers int) []*Verdict {
	out := make([]*Verdict, len(jobs))
	// Term.String caches its text: render every term once, single-threaded, before the workers share them
	for _, j := range jobs {
		for _, h := range j.o.Hyps {
			_ = h.String()
		}
		for _, h := range j.o.Axioms {
			_ = h.String()
		}
		for _, h := range j.lits {
			_ = h.String()
		}
		_ = j.o.Goal.String()
	}
	ch := make(chan int)
	var wg sync.WaitGroup
	for w := 0; w < workers; w++ {
		wg.Add(1)
		go func() {
			defer wg.Done()
			for i := range ch {
				out[i] = discharge(jobs[i].o, jobs[i].lits, workDir, jobs[i].idx, tsec, allAgree)
			}
		}()
	}
	for i := range jobs {
		ch <- i
	}
	close(ch)
	wg.Wait()
	return out
}

// rmQuery removes a decided query file unless GVC_KEEP is set (debugging).
func rmQuery(f string) {
	if os.Getenv("GVC_KEEP") == "" {
		os.Remove(f)
	}
}

// relevantVersion keeps the quantifier-free hypotheses and those quantified hypotheses/axioms that mention a symbol of the goal
// (allocation watermarks do not count). nil when nothing would be dropped.
func relevantVersion(o *Oblig) *Oblig { return relevantVersionN(o, 0) }

// relevantVersionN: level 0 uses the goal's memory/function symbols; level 1 first adds the symbols (also call results) of the
// quantifier-free hypotheses that share a symbol with the goal, so that facts linked to the goal through one equation stay in.
func relevantVersionN(o *Oblig, level int) *Oblig {
	symbolsOf := func(t *Term, out map[string]bool) { // shadow: memory symbols are compared without their generation suffix
		tmp := map[string]bool{}
		symbolsOf(t, tmp)
		for k := range tmp {
			if level < 0 {
				out[k] = true // exact names: only hypotheses about the very same memory generation
			} else {
				out[baseSymbol(k)] = true
			}
		}
	}
	gs := map[string]bool{}
	symbolsOf(o.Goal, gs)
	for k := range gs {
		// only memory (heap arrays, ghost maps) and function symbols count: plain variables (parameters, results, watermarks) occur
		// in almost every hypothesis and would make everything "relevant"
		if k == "top0" || strings.HasSuffix(k, "_top") || isPlainVarName(k) {
			delete(gs, k)
		}
	}
	if level > 0 {
		add := map[string]bool{}
		for _, h := range o.Hyps {
			if hasQuant(h) {
				continue
			}
			hs := map[string]bool{}
			symbolsOf(h, hs)
			share := false
			for k := range hs {
				if gs[k] {
					share = true
					break
				}
			}
			if share {
				for k := range hs {
					if k == "top0" || strings.HasSuffix(k, "_top") || strings.Contains(k, "_p_") {
						continue
					}
					add[k] = true
				}
			}
		}
		for k := range add {
			gs[k] = true
		}
	}
	rel := func(h *Term) bool {
		hs := map[string]bool{}
		symbolsOf(h, hs)
		for k := range hs {
			if gs[k] {
				return true
			}
		}
		return false
	}
	o2 := *o
	o2.Hyps, o2.Axioms = nil, nil
	dropped := 0
	for _, h := range o.Hyps {
		if !hasQuant(h) || rel(h) {
			o2.Hyps = append(o2.Hyps, h)
		} else {
			dropped++
		}
	}
	for _, a := range o.Axioms {
		if rel(a) {
			o2.Axioms = append(o2.Axioms, a)
		} else {
			dropped++
		}
	}
	if dropped == 0 {
		return nil
	}
	return &o2
}

// caseSplit: the obligation under C and under (not C) for the ground if-then-else condition C that occurs most often in it.
func caseSplit(o *Oblig) []*Oblig {
	counts := map[string]int{}
	terms := map[string]*Term{}
	var walk func(t *Term)
	walk = func(t *Term) {
		if t.Op == "ite" && len(t.Args) == 3 && !mentionsBound(t.Args[0]) && !hasQuant(t.Args[0]) {
			k := t.Args[0].String()
			counts[k]++
			terms[k] = t.Args[0]
		}
		for _, a := range t.Args {
			walk(a)
		}
	}
	walk(o.Goal)
	for _, h := range o.Hyps {
		walk(h)
	}
	best, bn := "", 0
	for k, n := range counts {
		if n > bn || (n == bn && k < best) {
			best, bn = k, n
		}
	}
	if bn < 2 {
		return nil
	}
	c := terms[best]
	var out []*Oblig
	for ci, extra := range []*Term{c, mkNot(c)} {
		oc := *o
		// in each case the condition is decided: the if-then-else terms over it are resolved (quantifier patterns containing an
		// ite do not match)
		oc.Hyps = nil
		for _, h := range o.Hyps {
			oc.Hyps = append(oc.Hyps, resolveIte(h, best, ci == 0))
		}
		oc.Hyps = append(oc.Hyps, extra)
		oc.Goal = resolveIte(o.Goal, best, ci == 0)
		oc.Axioms = o.Axioms
		out = append(out, &oc)
	}
	return out
}

// resolveIte replaces every (ite C a b) whose condition prints as cond by a (val) or b (!val).
func resolveIte(t *Term, cond string, val bool) *Term {
	if t.Op == "ite" && len(t.Args) == 3 && t.Args[0].String() == cond {
		if val {
			return resolveIte(t.Args[1], cond, val)
		}
		return resolveIte(t.Args[2], cond, val)
	}
	if len(t.Args) == 0 {
		return t
	}
	changed := false
	args := make([]*Term, len(t.Args))
	for i, a := range t.Args {
		args[i] = resolveIte(a, cond, val)
		if args[i] != a {
			changed = true
		}
	}
	var pats []*Term
	for _, p := range t.Pats {
		np := resolveIte(p, cond, val)
		if np != p {
			changed = true
		}
		pats = append(pats, np)
	}
	if !changed {
		return t
	}
	return &Term{Op: t.Op, Sort: t.Sort, Args: args, UF: t.UF, Lit: t.Lit, Var: t.Var, Bound: t.Bound, Pats: pats}
}

// isPlainVarName: v<N>_... symbols (fresh values, parameters, call results) as opposed to heap arrays and function symbols.
func isPlainVarName(k string) bool {
	if len(k) < 2 || k[0] != 'v' {
		return false
	}
	i := 1
	for i < len(k) && k[i] >= '0' && k[i] <= '9' {
		i++
	}
	if i == 1 || i >= len(k) || k[i] != '_' {
		return false
	}
	rest := k[i+1:]
	// havocked heaps keep a heap-like name after the counter (v12_havoc_live, v7_loophavoc_H_...): those are memory
	return !(strings.HasPrefix(rest, "havoc_") || strings.HasPrefix(rest, "loophavoc_") || strings.HasPrefix(rest, "approw") || strings.HasPrefix(rest, "appcopy") || strings.HasPrefix(rest, "copyrow"))
}

var genSuffix = regexp.MustCompile(`_g[0-9]+$`)
var havocPrefix = regexp.MustCompile(`^v[0-9]+_(loop)?havoc_`)

// baseSymbol: H_T_f_g12 -> H_T_f ; v7_loophavoc_H_T_f -> H_T_f (the same memory in another generation).
func baseSymbol(k string) string {
	k = genSuffix.ReplaceAllString(k, "")
	if loc := havocPrefix.FindStringIndex(k); loc != nil {
		rest := k[loc[1]:]
		if strings.HasPrefix(rest, "H_") || strings.HasPrefix(rest, "G_") || strings.HasPrefix(rest, "E_") || strings.HasPrefix(rest, "C_") {
			return rest
		}
	}
	return k
}
