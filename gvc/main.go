package main

import (
	"flag"
	"fmt"
	"os"
)

func main() {
	if len(os.Args) < 2 {
		fmt.Fprintln(os.Stderr, "usage: gvc <check|dump|replay|selftest|sweep> ...")
		os.Exit(2)
	}
	cmd := os.Args[1]
	fs := flag.NewFlagSet(cmd, flag.ExitOnError)
	repo := fs.String("repo", "/repo", "repository working tree")
	prop := fs.String("property", "", "property id")
	tier := fs.String("tier", "quick", "quick|thorough")
	fs.Parse(os.Args[2:])
	if t := os.Getenv("VERIF_TIER"); t != "" && *tier == "" {
		*tier = t
	}
	switch cmd {
	case "check":
		os.Exit(runCheck(*repo, *prop, *tier))
	case "replay":
		if len(fs.Args()) != 1 {
			fmt.Fprintln(os.Stderr, "usage: gvc replay <replay file>")
			os.Exit(2)
		}
		os.Exit(runReplay(*repo, fs.Args()[0]))
	case "func":
		os.Exit(runFunc(*repo, fs.Args()))
	case "frame":
		os.Exit(runFrameCmd(*repo, fs.Args()))
	case "dump":
		w, err := loadWorld(*repo)
		if err != nil {
			fmt.Fprintln(os.Stderr, err)
			os.Exit(2)
		}
		for _, k := range fs.Args() {
			dumpFunc(w, k)
		}
	default:
		fmt.Fprintln(os.Stderr, "unknown command", cmd)
		os.Exit(2)
	}
}
