package main

import (
	"bytes"
	"context"
	"encoding/json"
	"fmt"
	"os"
	"os/exec"
	"path/filepath"
	"regexp"
	"strings"
	"time"
)

// tryReplay attempts to turn a failed obligation's model into a failing run of the real code.
// Families with a template register themselves in replayers (key: prefix of the obligation name).
// replayMeta: where the generated test of the most recent replay was injected (recorded in the replay file so that
// `gvc replay <file>` can run it again).
var replayMeta map[string]string

var replayers = map[string]func(w *World, nr *namedResult) (bool, interface{}){}

func tryReplay(w *World, prop string, nr *namedResult) (bool, interface{}) {
	best := ""
	for prefix := range replayers {
		if strings.HasPrefix(nr.Name, prefix) && len(prefix) > len(best) {
			best = prefix
		}
	}
	if best != "" {
		return replayers[best](w, nr)
	}
	return false, "no replay template for this obligation family; the solver output above is the evidence"
}

// modelValues parses the (get-value ...) answer: a list of (term value) pairs.
func modelValues(out string) map[string]string {
	res := map[string]string{}
	i := strings.Index(out, "((")
	if i < 0 {
		return res
	}
	s := out[i+1:]
	// split top-level pairs
	depth := 0
	start := -1
	for k := 0; k < len(s); k++ {
		switch s[k] {
		case '(':
			if depth == 0 {
				start = k
			}
			depth++
		case ')':
			depth--
			if depth == 0 && start >= 0 {
				pair := s[start+1 : k]
				// term is first s-expr or atom
				term, val := splitFirst(pair)
				res[strings.TrimSpace(term)] = normalizeInt(strings.TrimSpace(val))
				start = -1
			}
			if depth < 0 {
				return res
			}
		}
	}
	return res
}

func splitFirst(s string) (string, string) {
	s = strings.TrimSpace(s)
	if strings.HasPrefix(s, "(") {
		d := 0
		for i := 0; i < len(s); i++ {
			if s[i] == '(' {
				d++
			}
			if s[i] == ')' {
				d--
				if d == 0 {
					return s[:i+1], s[i+1:]
				}
			}
		}
	}
	i := strings.IndexAny(s, " \t\n")
	if i < 0 {
		return s, ""
	}
	return s[:i], s[i+1:]
}

var negRe = regexp.MustCompile(`^\(-\s*(\d+)\)$`)

func normalizeInt(v string) string {
	if m := negRe.FindStringSubmatch(v); m != nil {
		return "-" + m[1]
	}
	return v
}

// firstValue returns the model value of the first witness term whose text starts with prefix.
func firstValue(vals map[string]string, prefix string) (string, bool) {
	best := ""
	for k := range vals {
		if strings.HasPrefix(k, prefix) && (best == "" || k < best) {
			best = k
		}
	}
	if best == "" {
		return "", false
	}
	return vals[best], true
}

// runOverlayTest injects an in-package test file into the repository build (no file is written under the repository) and runs it.
func runOverlayTest(repoDir, pkgRel, fileName, content, runPattern string) (passed bool, output string) {
	tmp, err := os.MkdirTemp("/var/tmp", "gvc-replay-")
	if err != nil {
		return true, "cannot create scratch dir: " + err.Error()
	}
	defer os.RemoveAll(tmp)
	src := filepath.Join(tmp, fileName)
	os.WriteFile(src, []byte(content), 0o644)
	ov := map[string]map[string]string{"Replace": {filepath.Join(repoDir, pkgRel, fileName): src}}
	ovb, _ := json.Marshal(ov)
	ovf := filepath.Join(tmp, "overlay.json")
	os.WriteFile(ovf, ovb, 0o644)
	ctx, cancel := context.WithTimeout(context.Background(), 180*time.Second)
	defer cancel()
	cmd := exec.CommandContext(ctx, "bash", "-c", fmt.Sprintf("ulimit -v 8000000; cd %s && go test -overlay %s -vet=off -count=1 -timeout 60s -run '%s' ./%s", repoDir, ovf, runPattern, pkgRel))
	cmd.Env = append(os.Environ(), "GOFLAGS=-mod=mod", "GOPROXY=off", "GOSUMDB=off", "GOTOOLCHAIN=local")
	var buf bytes.Buffer
	cmd.Stdout = &buf
	cmd.Stderr = &buf
	err = cmd.Run()
	return err == nil, truncate(buf.String(), 6000)
}

// runReplay implements `gvc replay <file>`: re-runs the recorded counterexample test against /repo's current tree when the replay
// file carries one; otherwise re-decides the recorded obligation. Exit 1: the violation still shows; 0: it no longer does.
func runReplay(repo string, path string) int {
	data, err := os.ReadFile(path)
	if err != nil {
		fmt.Fprintln(os.Stderr, err)
		return 2
	}
	var rec map[string]interface{}
	if err := json.Unmarshal(data, &rec); err != nil {
		fmt.Fprintln(os.Stderr, "not a replay file:", err)
		return 2
	}
	fmt.Printf("obligation: %v\nmeaning:    %v\nproperty:   %v\n", rec["obligation"], rec["meaning"], rec["property"])
	if info, ok := rec["replay"].(map[string]interface{}); ok {
		if ov, ok := info["overlay"].(map[string]interface{}); ok {
			test, _ := info["test"].(string)
			passed, out := runOverlayTest(repo, fmt.Sprint(ov["pkg"]), fmt.Sprint(ov["file"]), test, fmt.Sprint(ov["run"]))
			fmt.Println(out)
			if !passed {
				fmt.Println("REPLAY: the recorded input still fails on the current tree")
				return 1
			}
			fmt.Println("REPLAY: the recorded input no longer fails on the current tree")
			return 0
		}
	}
	fmt.Println("no failing input was recorded for this obligation (no-failing-input-found); solver output of the failed instances:")
	if insts, ok := rec["instances_detail"].([]interface{}); ok {
		for _, i := range insts {
			if m, ok := i.(map[string]interface{}); ok {
				fmt.Printf("  at %v path %v: %v %v\n", m["At"], m["Path"], m["Backend"], m["Tried"])
			}
		}
	}
	fmt.Println("re-deciding the obligation on the current tree ...")
	name := fmt.Sprint(rec["obligation"])
	key := name
	if i := strings.Index(name, "#"); i >= 0 {
		key = name[:i]
	}
	w, err := loadWorld(repo)
	if err != nil {
		fmt.Fprintln(os.Stderr, err)
		return 2
	}
	root := verifRoot()
	sp, err := loadSpecs(w, filepath.Join(root, "specs", "extern"))
	if err != nil {
		fmt.Println("REPLAY: the contracts no longer load:", err)
		return 1
	}
	fn := w.findFunc(key)
	if fn == nil {
		fmt.Println("REPLAY: not an obligation of a single function (frame, lemma or unbound contract); run the property's check instead")
		return 1
	}
	res := verifyFunc(w, sp, fn, sp.lookupFunc(fn), true)
	if res.Err != "" {
		fmt.Println("REPLAY: the function is not analysable on the current tree:", res.Err)
		return 1
	}
	workDir := filepath.Join(root, "work", "replay")
	os.MkdirAll(workDir, 0o755)
	var jobs []job
	for i, o := range res.Obligs {
		if o.Name == name {
			jobs = append(jobs, job{o, res.Lits, i})
		}
	}
	if len(jobs) == 0 {
		fmt.Println("REPLAY: the obligation is no longer generated on the current tree")
		return 1
	}
	failed := 0
	for _, v := range dischargeAll(jobs, workDir, 10, false, 16) {
		if v.Status != "discharged" {
			failed++
		}
	}
	if failed > 0 {
		fmt.Printf("REPLAY: the obligation still fails on the current tree (%d of %d instances)\n", failed, len(jobs))
		return 1
	}
	fmt.Println("REPLAY: the obligation is discharged on the current tree")
	return 0
}

