package main

import (
	"bytes"
	"context"
	"encoding/json"
	"fmt"
	"os"
	"os/exec"
	"path/filepath"
	"regexp"
	"strings"
	"time"
)

// tryReplay attempts to turn a failed obligation's model into a failing run of the real code.
// Families with a template register themselves in replayers (key: prefix of the obligation name).
var replayers = map[string]func(w *World, nr *namedResult) (bool, interface{}){}

func tryReplay(w *World, prop string, nr *namedResult) (bool, interface{}) {
	best := ""
	for prefix := range replayers {
		if strings.HasPrefix(nr.Name, prefix) && len(prefix) > len(best) {
			best = prefix
		}
	}
	if best != "" {
		return replayers[best](w, nr)
	}
	return false, "no replay template for this obligation family; the solver output above is the evidence"
}

// modelValues parses the (get-value ...) answer: a list of (term value) pairs.
func modelValues(out string) map[string]string {
	res := map[string]string{}
	i := strings.Index(out, "((")
	if i < 0 {
		return res
	}
	s := out[i+1:]
	// split top-level pairs
	depth := 0
	start := -1
	for k := 0; k < len(s); k++ {
		switch s[k] {
		case '(':
			if depth == 0 {
				start = k
			}
			depth++
		case ')':
			depth--
			if depth == 0 && start >= 0 {
				pair := s[start+1 : k]
				// term is first s-expr or atom
				term, val := splitFirst(pair)
				res[strings.TrimSpace(term)] = normalizeInt(strings.TrimSpace(val))
				start = -1
			}
			if depth < 0 {
				return res
			}
		}
	}
	return res
}

func splitFirst(s string) (string, string) {
	s = strings.TrimSpace(s)
	if strings.HasPrefix(s, "(") {
		d := 0
		for i := 0; i < len(s); i++ {
			if s[i] == '(' {
				d++
			}
			if s[i] == ')' {
				d--
				if d == 0 {
					return s[:i+1], s[i+1:]
				}
			}
		}
	}
	i := strings.IndexAny(s, " \t\n")
	if i < 0 {
		return s, ""
	}
	return s[:i], s[i+1:]
}

var negRe = regexp.MustCompile(`^\(-\s*(\d+)\)$`)

func normalizeInt(v string) string {
	if m := negRe.FindStringSubmatch(v); m != nil {
		return "-" + m[1]
	}
	return v
}

// firstValue returns the model value of the first witness term whose text starts with prefix.
func firstValue(vals map[string]string, prefix string) (string, bool) {
	best := ""
	for k := range vals {
		if strings.HasPrefix(k, prefix) && (best == "" || k < best) {
			best = k
		}
	}
	if best == "" {
		return "", false
	}
	return vals[best], true
}

// runOverlayTest injects an in-package test file into the repository build (no file is written under the repository) and runs it.
func runOverlayTest(repoDir, pkgRel, fileName, content, runPattern string) (passed bool, output string) {
	tmp, err := os.MkdirTemp("/var/tmp", "gvc-replay-")
	if err != nil {
		return true, "cannot create scratch dir: " + err.Error()
	}
	defer os.RemoveAll(tmp)
	src := filepath.Join(tmp, fileName)
	os.WriteFile(src, []byte(content), 0o644)
	ov := map[string]map[string]string{"Replace": {filepath.Join(repoDir, pkgRel, fileName): src}}
	ovb, _ := json.Marshal(ov)
	ovf := filepath.Join(tmp, "overlay.json")
	os.WriteFile(ovf, ovb, 0o644)
	ctx, cancel := context.WithTimeout(context.Background(), 180*time.Second)
	defer cancel()
	cmd := exec.CommandContext(ctx, "bash", "-c", fmt.Sprintf("ulimit -v 8000000; cd %s && go test -overlay %s -vet=off -count=1 -timeout 60s -run '%s' ./%s", repoDir, ovf, runPattern, pkgRel))
	cmd.Env = append(os.Environ(), "GOFLAGS=-mod=mod", "GOPROXY=off", "GOSUMDB=off", "GOTOOLCHAIN=local")
	var buf bytes.Buffer
	cmd.Stdout = &buf
	cmd.Stderr = &buf
	err = cmd.Run()
	return err == nil, truncate(buf.String(), 6000)
}
