package main

// tryReplay attempts to turn a failed obligation's model into a failing run of the real code.
// Families with a template register themselves in replayers.
var replayers = map[string]func(w *World, nr *namedResult) (bool, interface{}){}

func tryReplay(w *World, prop string, nr *namedResult) (bool, interface{}) {
	for prefix, f := range replayers {
		if len(nr.Name) >= len(prefix) && nr.Name[:len(prefix)] == prefix {
			return f(w, nr)
		}
	}
	return false, "no replay template for this obligation family; the solver output above is the evidence"
}
