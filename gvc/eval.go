package main

import (
	"fmt"
	"go/types"
	"strings"

	"golang.org/x/tools/go/ssa"
)

// Env evaluates contract expressions in a symbolic state.
type Env struct {
	x       *Exec
	st      *State
	mem     memView   // where heap reads go (state or snapshot)
	old     *HeapSnap // target of old(...)
	vars    map[string]Value
	types   map[string]types.Type
	oldVars map[string]Value // values of names at the old() point (nil: same as vars)
	pkgPath string
	depth   int
	frame   *Frame // the activation whose locals are bound (loop invariants); nil: root frame
	frameIx int
}

type nilT struct{}

func (nilT) Underlying() types.Type { return nilT{} }
func (nilT) String() string         { return "nil" }

func (x *Exec) newEnv(st *State, pkgPath string) *Env {
	return &Env{x: x, st: st, mem: st, vars: map[string]Value{}, types: map[string]types.Type{}, pkgPath: pkgPath}
}
func (e *Env) bind(name string, v Value, t types.Type) {
	e.vars[name] = v
	e.types[name] = t
}
func (e *Env) child() *Env {
	n := *e
	n.vars = map[string]Value{}
	n.types = map[string]types.Type{}
	for k, v := range e.vars {
		n.vars[k] = v
	}
	for k, v := range e.types {
		n.types[k] = v
	}
	return &n
}
func (e *Env) atOld() *Env {
	if e.old == nil {
		return e
	}
	n := *e
	n.mem = e.old
	if e.oldVars != nil {
		n.vars = e.oldVars
	}
	return &n
}

func (e *Env) pkg() *types.Package {
	if e.pkgPath == "" {
		return nil
	}
	if p, ok := e.x.w.ByPath[e.pkgPath]; ok {
		return p.Types
	}
	return nil
}

// resolveType resolves Go type text in the contract's package.
func (e *Env) resolveType(s string) types.Type {
	s = strings.TrimSpace(s)
	switch {
	case strings.HasPrefix(s, "*"):
		return types.NewPointer(e.resolveType(s[1:]))
	case strings.HasPrefix(s, "[]"):
		return types.NewSlice(e.resolveType(s[2:]))
	case s == "interface{}":
		return types.NewInterfaceType(nil, nil)
	case s == "Ref":
		return types.Typ[types.UnsafePointer]
	case strings.HasPrefix(s, "map["):
		depth := 0
		for i := 3; i < len(s); i++ {
			if s[i] == '[' {
				depth++
			}
			if s[i] == ']' {
				depth--
				if depth == 0 {
					return types.NewMap(e.resolveType(s[4:i]), e.resolveType(s[i+1:]))
				}
			}
		}
	}
	if o := types.Universe.Lookup(s); o != nil {
		if tn, ok := o.(*types.TypeName); ok {
			return tn.Type()
		}
	}
	pkg := e.pkg()
	if i := strings.LastIndex(s, "."); i >= 0 {
		pname, tname := s[:i], s[i+1:]
		// full import path or package name among imports / repo packages
		var cand *types.Package
		if p, ok := e.x.w.ByPath[pname]; ok {
			cand = p.Types
		}
		if cand == nil && pkg != nil && pkg.Name() == pname {
			cand = pkg
		}
		if cand == nil && pkg != nil {
			for _, imp := range pkg.Imports() {
				if imp.Name() == pname || imp.Path() == pname {
					cand = imp
				}
			}
		}
		if cand == nil {
			for path, p := range e.x.w.ByPath {
				if (inRepo(path) && (shortPkg(path) == pname || p.Types.Name() == pname)) || path == pname {
					cand = p.Types
					break
				}
			}
		}
		if cand == nil {
			for _, p := range e.x.w.ByPath {
				if p.Types.Name() == pname {
					cand = p.Types
					break
				}
			}
		}
		if cand != nil {
			if o := cand.Scope().Lookup(tname); o != nil {
				return o.Type()
			}
		}
		panic(fmt.Sprintf("contract type %q: not found", s))
	}
	if pkg != nil {
		if o := pkg.Scope().Lookup(s); o != nil {
			return o.Type()
		}
	}
	panic(fmt.Sprintf("contract type %q: not found in %s", s, e.pkgPath))
}

func (x *Exec) evalBool(env *Env, e Expr) (res *Term) {
	if env.depth == 0 {
		defer func() {
			if r := recover(); r != nil {
				panic(fmt.Sprintf("%v [while evaluating: %s]", r, exprText(e)))
			}
		}()
	}
	v, _ := x.eval(env, e)
	t, ok := v.(*Term)
	if !ok || t.Sort != SBool {
		panic(fmt.Sprintf("contract expression is not boolean: %T", v))
	}
	return t
}

// evalBoolEntry evaluates a clause of the function's own contract in the entry state.
func (x *Exec) evalBoolEntry(st *State, e Expr) *Term {
	env := x.selfEnv(st)
	return x.evalBool(env.atOld(), e)
}

// selfEnv: names of the function under verification bound to their entry values; old() = entry heap.
func (x *Exec) selfEnv(st *State) *Env {
	env := x.newEnv(st, pkgPathOf(x.fn))
	for n, v := range x.entryVals {
		env.bind(n, v, x.entryTypes[n])
	}
	env.old = x.entry
	return env
}

func isNilExpr(e Expr) bool { _, ok := e.(*ENil); return ok }

func (x *Exec) eval(env *Env, e Expr) (Value, types.Type) {
	switch e := e.(type) {
	case *EInt:
		return mkIntStr(e.V), types.Typ[types.UntypedInt]
	case *EStr:
		return x.strLit(unquote(e.V)), types.Typ[types.String]
	case *EBool:
		return mkBool(e.V), types.Typ[types.Bool]
	case *ENil:
		return mkInt(0), nilT{}
	case *EIdent:
		if v, ok := env.vars[e.Name]; ok {
			return v, env.types[e.Name]
		}
		// package-level variable of the contract's package
		if g := x.lookupGlobal(env, e.Name); g != nil {
			p := &PtrV{Kind: PRef, Ref: x.globalRef(g), Elem: g.Type().(*types.Pointer).Elem(), Global: g}
			return x.load(env.st, env.mem, p), p.Elem
		}
		// constants
		if pkg := env.pkg(); pkg != nil {
			if c, ok := pkg.Scope().Lookup(e.Name).(*types.Const); ok {
				return x.constOf(c), c.Type()
			}
		}
		panic(fmt.Sprintf("contract: unknown name %q", e.Name))
	case *EOld:
		return x.eval(env.atOld(), e.X)
	case *ESel:
		// qualified constant / global: pkg.Name
		if id, ok := e.X.(*EIdent); ok {
			if _, bound := env.vars[id.Name]; !bound {
				if v, t, ok := x.qualified(env, id.Name, e.Name); ok {
					return v, t
				}
			}
		}
		bv, bt := x.eval(env, e.X)
		return x.selectField(env, bv, bt, e.Name)
	case *EIndex:
		bv, bt := x.eval(env, e.X)
		iv, _ := x.eval(env, e.I)
		switch u := bt.Underlying().(type) {
		case *types.Slice:
			s := bv.(*SliceV)
			p := &PtrV{Kind: PElem, Ref: s.Arr, Idx: mkAdd(s.Off, iv.(*Term)), Elem: u.Elem()}
			if _, isStruct := isStructType(u.Elem()); isStruct {
				// struct elements are denoted by their location so that fields can be selected
				return &PtrV{Kind: PRef, Ref: x.elemRef(env.st, u.Elem(), s.Arr, p.Idx), Elem: u.Elem()}, types.NewPointer(u.Elem())
			}
			return x.load(env.st, env.mem, p), u.Elem()
		case *types.Map:
			ref := bv.(*Term)
			k := x.keyTerm(env.st, bt, iv)
			var ts []*Term
			for _, c := range comps(u.Elem()) {
				name := "MV|" + typeID(bt) + "|" + c.Suffix
				h := env.mem.getHeap(name, arrSort(SInt, arrSort(mapKeySort(bt), c.Sort)))
				ts = append(ts, mkSelect(mkSelect(h, ref), k))
			}
			v, _ := x.rebuild(u.Elem(), ts)
			return v, u.Elem()
		case *types.Basic:
			return ufApp(ufSByte, bv.(*Term), iv.(*Term)), types.Typ[types.Uint8]
		}
		panic("contract: index of non-slice")
	case *ESlice:
		bv, bt := x.eval(env, e.X)
		s := bv.(*SliceV)
		lo := mkInt(0)
		if e.Lo != nil {
			v, _ := x.eval(env, e.Lo)
			lo = v.(*Term)
		}
		hi := s.Len
		if e.Hi != nil {
			v, _ := x.eval(env, e.Hi)
			hi = v.(*Term)
		}
		return &SliceV{s.Arr, mkAdd(s.Off, lo), mkSub(hi, lo), mkSub(s.Cap, lo)}, bt
	case *EUnary:
		v, t := x.eval(env, e.X)
		if e.Op == "!" {
			return mkNot(v.(*Term)), t
		}
		if e.Op == "*" {
			pt, ok := t.Underlying().(*types.Pointer)
			if !ok {
				panic("contract: * applied to a non-pointer")
			}
			var p *PtrV
			switch pv := v.(type) {
			case *PtrV:
				p = pv
			case *Term:
				p = &PtrV{Kind: PRef, Ref: pv, Elem: pt.Elem()}
			}
			return x.load(env.st, env.mem, p), pt.Elem()
		}
		return mkSub(mkInt(0), v.(*Term)), t
	case *EBinary:
		return x.evalBinary(env, e)
	case *ECond:
		c := x.evalBool(env, e.C)
		a, at := x.eval(env, e.A)
		b, bt := x.eval(env, e.B)
		if _, isNil := at.(nilT); isNil {
			at = bt
			a = x.nilOf(bt)
		}
		if _, isNil := bt.(nilT); isNil {
			b = x.nilOf(at)
		}
		return x.valueIte(c, at, x.asPlainPure(a), x.asPlainPure(b)), at
	case *EQuant:
		ch := env.child()
		if env.oldVars != nil {
			ch.oldVars = map[string]Value{}
			for k, v := range env.oldVars {
				ch.oldVars[k] = v
			}
		}
		var bound []*Term
		var guards []*Term
		for _, v := range e.Vars {
			t := env.resolveType(v.Type)
			if _, isStruct := isStructType(t); isStruct {
				var ts []*Term
				for i, c := range comps(t) {
					bv := mkVar(fmt.Sprintf("%s!q%d", v.Name, i), c.Sort)
					bound = append(bound, bv)
					ts = append(ts, bv)
				}
				val, _ := x.rebuild(t, ts)
				ch.bind(v.Name, val, t)
				if ch.oldVars != nil {
					ch.oldVars[v.Name] = val
				}
				continue
			}
			bv := mkVar(v.Name+"!q", scalarSort(t))
			bound = append(bound, bv)
			var val Value = bv
			if pt, ok := t.Underlying().(*types.Pointer); ok {
				val = &PtrV{Kind: PRef, Ref: bv, Elem: pt.Elem()}
			}
			ch.bind(v.Name, val, t)
			if ch.oldVars != nil {
				ch.oldVars[v.Name] = val
			}
		}
		// facts assumed while evaluating the body (type facts of loads) must not leak bound variables into the path condition
		saved := env.st.pc
		var pats []*Term
		for _, pe := range e.Pats {
			pv, _ := x.eval(ch, pe)
			for _, t := range flatten(x.asPlainPure(pv)) {
				if !t.Lit && !t.Var {
					pats = append(pats, t)
				}
			}
		}
		body := x.evalBool(ch, e.Body)
		extra := env.st.pc[len(saved):]
		env.st.pc = saved
		var keep []*Term
		for _, f := range extra {
			if mentionsAny(f, bound) {
				// a fact about a bound variable (type facts of loads under the binder) cannot be asserted outside the quantifier;
				// as a guard it would weaken quantified hypotheses, so it is dropped (fewer assumptions: sound)
				continue
			}
			keep = append(keep, f)
		}
		for _, f := range keep {
			x.assumeIn(env.st, f)
		}
		if e.Forall {
			return mkForall(bound, mkImplies(mkAnd(guards...), body), pats...), types.Typ[types.Bool]
		}
		return mkExists(bound, mkAnd(append(guards, body)...)), types.Typ[types.Bool]
	case *EAssert:
		v, _ := x.eval(env, e.X)
		t := env.resolveType(e.T)
		return x.unbox(env.st, t, v.(*Term)), t
	case *ECall:
		return x.evalCall(env, e)
	}
	panic(fmt.Sprintf("contract: cannot evaluate %T", e))
}

func mentionsAny(t *Term, vs []*Term) bool {
	for _, v := range vs {
		if t.Var && t.Op == v.Op {
			return true
		}
	}
	for _, a := range t.Args {
		if mentionsAny(a, vs) {
			return true
		}
	}
	return false
}

func (x *Exec) asPlainPure(v Value) Value {
	if p, ok := v.(*PtrV); ok && p.Kind == PRef {
		return p.Ref
	}
	return v
}

func (x *Exec) nilOf(t types.Type) Value {
	if _, ok := t.Underlying().(*types.Slice); ok {
		return &SliceV{mkInt(0), mkInt(0), mkInt(0), mkInt(0)}
	}
	return mkInt(0)
}

func unquote(s string) string {
	r := strings.NewReplacer(`\n`, "\n", `\t`, "\t", `\r`, "\r", `\"`, `"`, `\\`, `\`)
	return r.Replace(s)
}

func (x *Exec) constOf(c *types.Const) Value {
	switch scalarSort(c.Type()) {
	case SBool:
		return mkBool(c.Val().String() == "true")
	case SStr:
		return x.strLit(strings.Trim(c.Val().ExactString(), `"`))
	case SInt:
		return mkIntStr(c.Val().ExactString())
	}
	return x.fltLit(c.Val().ExactString())
}

func (x *Exec) selectField(env *Env, bv Value, bt types.Type, name string) (Value, types.Type) {
	T := derefType(bt)
	s, ok := isStructType(T)
	if !ok {
		panic(fmt.Sprintf("contract: .%s on non-struct %s", name, bt))
	}
	idx := fieldIndex(s, name)
	if idx < 0 {
		// promoted field through an embedded struct
		for i := 0; i < s.NumFields(); i++ {
			if s.Field(i).Embedded() {
				if es, ok := isStructType(derefType(s.Field(i).Type())); ok && fieldIndex(es, name) >= 0 {
					ev, et := x.selectField(env, bv, bt, s.Field(i).Name())
					return x.selectField(env, ev, et, name)
				}
			}
		}
		panic(fmt.Sprintf("contract: no field %s in %s", name, typeName(T)))
	}
	ft := s.Field(idx).Type()
	if sv, isVal := bv.(*StructV); isVal {
		return sv.F[idx], ft
	}
	ref := x.valRef(env.st, bv)
	if _, nested := isStructType(ft); nested {
		// denote nested struct by its location
		return &PtrV{Kind: PRef, Ref: x.fldRef(env.st, T, idx, ref), Elem: ft}, types.NewPointer(ft)
	}
	return x.loadField(env.st, env.mem, T, idx, ref, ft), ft
}

func (x *Exec) evalBinary(env *Env, e *EBinary) (Value, types.Type) {
	boolT := types.Typ[types.Bool]
	switch e.Op {
	case "&&":
		return mkAnd(x.evalBool(env, e.X), x.evalBool(env, e.Y)), boolT
	case "||":
		return mkOr(x.evalBool(env, e.X), x.evalBool(env, e.Y)), boolT
	case "==>":
		return mkImplies(x.evalBool(env, e.X), x.evalBool(env, e.Y)), boolT
	case "<==>":
		return mkEq(x.evalBool(env, e.X), x.evalBool(env, e.Y)), boolT
	}
	a, at := x.eval(env, e.X)
	b, bt := x.eval(env, e.Y)
	switch e.Op {
	case "==", "!=":
		var eq *Term
		if _, isNil := bt.(nilT); isNil {
			eq = x.isNil(a)
		} else if _, isNil := at.(nilT); isNil {
			eq = x.isNil(b)
		} else {
			pa, pb := x.asPlainPure(a), x.asPlainPure(b)
			if sa, ok := pa.(*SliceV); ok {
				sb := pb.(*SliceV)
				eq = mkAnd(mkEq(sa.Arr, sb.Arr), mkEq(sa.Off, sb.Off), mkEq(sa.Len, sb.Len))
			} else {
				eq = valueEq(pa, pb)
			}
		}
		if e.Op == "!=" {
			return mkNot(eq), boolT
		}
		return eq, boolT
	}
	ta, tb := a.(*Term), b.(*Term)
	switch e.Op {
	case "<", "<=", ">", ">=":
		return mkCmp(e.Op, ta, tb), boolT
	case "+":
		if ta.Sort == SStr {
			return ufApp(ufConcat, ta, tb), at
		}
		return mkAdd(ta, tb), at
	case "-":
		return mkSub(ta, tb), at
	case "*":
		return mkMul(ta, tb), at
	case "/":
		return app("div", SInt, ta, tb), at
	case "%":
		return app("mod", SInt, ta, tb), at
	}
	panic("contract: operator " + e.Op)
}

func (x *Exec) isNil(v Value) *Term {
	switch v := v.(type) {
	case *SliceV:
		return mkEq(v.Arr, mkInt(0))
	case *PtrV:
		if v.Kind == PRef {
			return mkEq(v.Ref, mkInt(0))
		}
		return tFalse
	case *Term:
		return mkEq(v, mkInt(0))
	}
	panic(fmt.Sprintf("isNil: %T", v))
}

// ghostHeapSort: the sort of the array representing ghost g (one or two arguments).
func (x *Exec) ghostHeapSort(g *GhostSpec) Sort {
	rs := x.ghostSort(g)
	if len(g.Params) == 2 {
		env := x.newEnv(nil, g.PkgPath)
		return arrSort(SInt, arrSort(scalarSort(env.resolveType(g.Params[1].Type)), rs))
	}
	return arrSort(SInt, rs)
}

func (x *Exec) ghostSort(g *GhostSpec) Sort {
	switch g.Ret {
	case "bool":
		return SBool
	case "string":
		return SStr
	}
	return SInt
}

func (x *Exec) evalCall(env *Env, e *ECall) (Value, types.Type) {
	boolT := types.Typ[types.Bool]
	intT := types.Typ[types.Int]
	switch e.Fn {
	case "len", "cap":
		v, t := x.eval(env, e.Args[0])
		switch a := v.(type) {
		case *SliceV:
			if e.Fn == "cap" {
				return a.Cap, intT
			}
			return a.Len, intT
		case *Term:
			if a.Sort == SStr {
				return ufApp(ufSlen, a), intT
			}
		}
		panic(fmt.Sprintf("contract: len of %s", t))
	case "typeis":
		v, _ := x.eval(env, e.Args[0])
		return x.typeIs(env.st, v.(*Term), env.resolveType(e.TypeArgs[0])), boolT
	case "unchangedElems": // unchangedElems(T): every array of T elements that existed at function entry holds what it held then
		if env.old == nil {
			panic("contract: unchangedElems() outside a postcondition")
		}
		et := env.resolveType(e.TypeArgs[0])
		var conj []*Term
		for _, c := range comps(et) {
			name := elemHeapName(et, c.Suffix)
			srt := arrSort(SInt, arrSort(SInt, c.Sort))
			cur, was := env.mem.getHeap(name, srt), env.old.getHeap(name, srt)
			if cur.String() == was.String() {
				continue
			}
			a := mkVar("a!ue", SInt)
			conj = append(conj, mkForall([]*Term{a}, mkImplies(mkCmp("<=", a, env.old.top), mkEq(mkSelect(cur, a), mkSelect(was, a)))))
		}
		return mkAnd(conj...), boolT
	case "zero":
		t := env.resolveType(e.TypeArgs[0])
		return x.zeroValue(t), t
	case "cast":
		v, _ := x.eval(env, e.Args[0])
		return v, env.resolveType(e.TypeArgs[0])
	case "arr", "lo", "hi":
		v, _ := x.eval(env, e.Args[0])
		s := v.(*SliceV)
		switch e.Fn {
		case "arr":
			return s.Arr, intT
		case "lo":
			return s.Off, intT
		}
		return mkAdd(s.Off, s.Len), intT
	case "bytes": // bytes(s): the string content of a byte slice in the current view
		v, _ := x.eval(env, e.Args[0])
		s := v.(*SliceV)
		return ufApp(ufStrOfBytes, x.bytesContent(env.st, env.mem, s), s.Off, s.Len), types.Typ[types.String]
	case "fresh": // fresh(p): p was allocated after function entry
		v, _ := x.eval(env, e.Args[0])
		if env.old == nil {
			panic("contract: fresh() outside a postcondition")
		}
		return mkCmp(">", x.valRef(env.st, v), env.old.top), boolT
	case "allocated": // allocated(p): p exists in the state the expression is evaluated in (inside old(): at function entry)
		v, _ := x.eval(env, e.Args[0])
		top := env.st.top
		if snap, ok := env.mem.(*HeapSnap); ok {
			top = snap.top
		}
		return mkCmp("<=", x.valRef(env.st, v), top), boolT
	case "ref": // ref(p): the reference as an integer (for ghost arithmetic)
		v, _ := x.eval(env, e.Args[0])
		return x.valRef(env.st, v), intT
	case "addrof":
		name := e.TypeArgs[0]
		var g *ssa.Global
		if i := strings.LastIndex(name, "."); i >= 0 {
			for path, sp := range x.w.SSAPkg {
				if path == name[:i] || shortPkg(path) == name[:i] || sp.Pkg.Name() == name[:i] {
					if gg, ok := sp.Members[name[i+1:]].(*ssa.Global); ok {
						g = gg
					}
				}
			}
		} else {
			g = x.lookupGlobal(env, name)
		}
		if g == nil {
			panic("contract: addrof: no package-level variable " + name)
		}
		return &PtrV{Kind: PRef, Ref: x.globalRef(g), Elem: g.Type().(*types.Pointer).Elem(), Global: g}, g.Type()
	case "seen": // seen(k, key): key has already been produced by the map iteration driving loop k of this function
		kk, _ := isLitInt(func() *Term { v, _ := x.eval(env, e.Args[0]); return v.(*Term) }())
		fr := env.frame
		ix := env.frameIx
		if fr == nil {
			fr = env.st.frames[0]
			ix = 0
		}
		li := x.loopsOf(fr.fn)
		var rng *ssa.Range
		for _, h := range li.headers {
			if li.ordinal[h] != int(kk) {
				continue
			}
			for b := range li.body[h] {
				for _, in := range b.Instrs {
					if nx, ok := in.(*ssa.Next); ok && !nx.IsString {
						if r, ok := nx.Iter.(*ssa.Range); ok {
							rng = r
						}
					}
				}
			}
		}
		if rng == nil {
			panic(fmt.Sprintf("contract: seen(%d, ...): loop %d of %s is not a map iteration", kk, kk, funcKey(fr.fn)))
		}
		key := iterKey(rng, ix+1)
		vis, ok := env.st.heap[key]
		kv, _ := x.eval(env, e.Args[1])
		if !ok {
			return tFalse, boolT // iteration not started
		}
		return mkSelect(vis, x.asPlainPure(kv).(*Term)), boolT
	case "has": // has(m, k): key k is present in map m
		mv, mt := x.eval(env, e.Args[0])
		kv, _ := x.eval(env, e.Args[1])
		name := "MP|" + typeID(mt)
		ph := env.mem.getHeap(name, arrSort(SInt, arrSort(mapKeySort(mt), SBool)))
		ref := mv.(*Term)
		return mkAnd(mkNe(ref, mkInt(0)), mkSelect(mkSelect(ph, ref), x.keyTerm(env.st, mt, kv))), boolT
	case "runeAt": // runeAt(s, i): the i-th rune of string s
		sv, _ := x.eval(env, e.Args[0])
		iv, _ := x.eval(env, e.Args[1])
		return ufApp(ufSRune, sv.(*Term), iv.(*Term)), types.Typ[types.Int32]
	case "variant": // variant(k): the value loop k's variant had at its most recent loop head on this path
		kk, _ := isLitInt(func() *Term { v, _ := x.eval(env, e.Args[0]); return v.(*Term) }())
		fr := env.frame
		ix := env.frameIx
		if fr == nil {
			fr = env.st.frames[0]
			ix = 0
		}
		li := x.loopsOf(fr.fn)
		for _, h := range li.headers {
			if li.ordinal[h] == int(kk) {
				if v, ok := env.st.heap["VARIANT|"+variantKey(ix, h)]; ok {
					return v, intT
				}
			}
		}
		panic(fmt.Sprintf("contract: variant(%d): loop has no decreases clause or has not been entered", kk))
	case "bitand": // bitand(a, b): a & b (bit arithmetic is uninterpreted; the same symbol the code's & is translated to)
		a, at := x.eval(env, e.Args[0])
		b, _ := x.eval(env, e.Args[1])
		return ufApp(&UF{"bitop_" + smtIdent("&"), []Sort{SInt, SInt}, SInt}, a.(*Term), b.(*Term)), at
	case "asiface": // asiface(e): the value e boxed into an interface (the `self` an interface contract speaks about)
		v, t := x.eval(env, e.Args[0])
		return x.box(env.st, t, v), types.NewInterfaceType(nil, nil)
	case "runeLen": // runeLen(s): number of runes of string s (len([]rune(s)))
		sv, _ := x.eval(env, e.Args[0])
		return ufApp(ufSRuneLen, sv.(*Term)), types.Typ[types.Int]
	case "runeSub": // runeSub(s, lo, hi): string([]rune(s)[lo:hi])
		sv, _ := x.eval(env, e.Args[0])
		lo, _ := x.eval(env, e.Args[1])
		hi, _ := x.eval(env, e.Args[2])
		return ufApp(ufSRuneSub, sv.(*Term), lo.(*Term), hi.(*Term)), types.Typ[types.String]
	case "was": // was(g, x): the ghost g of the node x denotes NOW, looked up in the old() state
		gname := e.Args[0].(*EIdent).Name
		g := x.sp.Ghosts[gname]
		if g == nil || env.old == nil {
			panic("contract: was(ghost, x) needs a ghost name and a postcondition context")
		}
		v, _ := x.eval(env, e.Args[1])
		h := env.old.getHeap("G|"+g.Name, x.ghostHeapSort(g))
		return mkSelect(h, x.valRef(env.st, v)), boolT
	case "errmsg":
		v, _ := x.eval(env, e.Args[0])
		return ufApp(&UF{"err_Error", []Sort{SInt}, SStr}, v.(*Term)), types.Typ[types.String]
	}
	if i := strings.LastIndex(e.Fn, "."); i >= 0 {
		bare := e.Fn[i+1:]
		_, isP := x.sp.Preds[bare]
		_, isS := x.sp.SpecFns[bare]
		_, isG := x.sp.Ghosts[bare]
		if isP || isS || isG {
			ne := *e
			ne.Fn = bare
			return x.evalCall(env, &ne)
		}
	}
	if p, ok := x.sp.Preds[e.Fn]; ok {
		return x.evalPredLike(env, e, p.Params, p.Body, p.PkgPath, boolT)
	}
	if f, ok := x.sp.SpecFns[e.Fn]; ok {
		penv := *env
		penv.pkgPath = f.PkgPath
		rt := penv.resolveType(f.Ret)
		if f.Body != nil && !f.Recursive {
			return x.evalPredLike(env, e, f.Params, f.Body, f.PkgPath, rt)
		}
		var args []*Term
		var sorts []Sort
		for _, rd := range f.Reads {
			name, srt := x.readsHeap(&penv, rd)
			h := env.mem.getHeap(name, srt)
			args = append(args, h)
			sorts = append(sorts, srt)
		}
		for _, a := range e.Args {
			v, _ := x.eval(env, a)
			for _, t := range flatten(x.asPlainPure(v)) {
				args = append(args, t)
				sorts = append(sorts, t.Sort)
			}
		}
		cs := comps(rt)
		var ts []*Term
		for i, c := range cs {
			ts = append(ts, ufApp(&UF{fmt.Sprintf("spec_%s_%d", f.Name, i), sorts, c.Sort}, args...))
		}
		v, _ := x.rebuild(rt, ts)
		if f.Body != nil {
			x.recSpecUsed[f.Name] = true
		}
		return v, rt
	}
	if g, ok := x.sp.Ghosts[e.Fn]; ok {
		v, _ := x.eval(env, e.Args[0])
		h := env.mem.getHeap("G|"+g.Name, x.ghostHeapSort(g))
		penv := *env
		penv.pkgPath = g.PkgPath
		rt := penv.resolveType(g.Ret)
		r := mkSelect(h, x.valRef(env.st, v))
		if len(g.Params) == 2 {
			v2, _ := x.eval(env, e.Args[1])
			r = mkSelect(r, x.asPlainPure(v2).(*Term))
		}
		if pt, ok := rt.Underlying().(*types.Pointer); ok {
			return &PtrV{Kind: PRef, Ref: r, Elem: pt.Elem()}, rt
		}
		return r, rt
	}
	panic(fmt.Sprintf("contract: unknown function %q", e.Fn))
}

func (x *Exec) evalPredLike(env *Env, e *ECall, params []Param, body Expr, pkgPath string, rt types.Type) (Value, types.Type) {
	if len(params) != len(e.Args) {
		panic(fmt.Sprintf("contract: %s expects %d arguments", e.Fn, len(params)))
	}
	if env.depth > 40 {
		panic("contract: predicate nesting too deep (recursive pred?) at " + e.Fn)
	}
	inner := &Env{x: x, st: env.st, mem: env.mem, old: env.old, vars: map[string]Value{}, types: map[string]types.Type{}, pkgPath: pkgPath, depth: env.depth + 1, frame: env.frame, frameIx: env.frameIx}
	if env.oldVars != nil {
		inner.oldVars = map[string]Value{}
	}
	for i, p := range params {
		v, t := x.eval(env, e.Args[i])
		pt := inner.resolveType(p.Type)
		if _, isNil := t.(nilT); isNil {
			v = x.nilOf(pt)
		}
		if _, isPtr := pt.Underlying().(*types.Pointer); isPtr {
			if tv, ok := v.(*Term); ok {
				v = &PtrV{Kind: PRef, Ref: tv, Elem: pt.Underlying().(*types.Pointer).Elem()}
			}
		}
		inner.bind(p.Name, v, pt)
		if inner.oldVars != nil {
			// arguments are values: inside the body old() keeps them
			inner.oldVars[p.Name] = v
		}
	}
	v, _ := x.eval(inner, body)
	return v, rt
}

// readsHeap resolves a `reads Type.field` entry to the heap array it denotes.
func (x *Exec) readsHeap(env *Env, rd string) (string, Sort) {
	if strings.HasPrefix(rd, "[]") { // the elements of slices of that type
		et := env.resolveType(rd[2:])
		cs := comps(et)
		if _, isStruct := isStructType(et); isStruct || len(cs) != 1 {
			panic("reads: only slices of scalars are supported: " + rd)
		}
		return elemHeapName(et, cs[0].Suffix), arrSort(SInt, arrSort(SInt, cs[0].Sort))
	}
	i := strings.LastIndex(rd, ".")
	T := env.resolveType(rd[:i])
	st, ok := isStructType(T)
	if !ok {
		panic("reads: not a struct type: " + rd)
	}
	idx := fieldIndex(st, rd[i+1:])
	if idx < 0 {
		panic("reads: no such field: " + rd)
	}
	cs := comps(st.Field(idx).Type())
	if len(cs) != 1 {
		panic("reads: only scalar fields are supported: " + rd)
	}
	return fieldHeapName(T, idx, cs[0].Suffix), arrSort(SInt, cs[0].Sort)
}

// boundMem is a memory view in which the heaps a recursive spec function reads are universally quantified variables.
type boundMem struct{ m map[string]*Term }

func (b *boundMem) getHeap(name string, sort Sort) *Term {
	if t, ok := b.m[name]; ok {
		return t
	}
	panic("recursive spec function reads heap " + name + " which is not declared in its reads clause")
}

// recSpecAxioms: the unfolding axiom of every recursive spec function.
func (x *Exec) recSpecAxioms() []*Term {
	var out []*Term
	var names []string
	for n, f := range x.sp.SpecFns {
		if f.Recursive && f.Body != nil {
			names = append(names, n)
		}
	}
	sortStrings(names)
	for _, n := range names {
		f := x.sp.SpecFns[n]
		st := &State{heap: map[string]*Term{}, top: mkVar("top0", SInt)}
		env := x.newEnv(st, f.PkgPath)
		bm := &boundMem{m: map[string]*Term{}}
		var bound []*Term
		var args []Expr
		for _, rd := range f.Reads {
			name, srt := x.readsHeap(env, rd)
			hv := mkVar("H!"+smtIdent(name), srt)
			bm.m[name] = hv
			bound = append(bound, hv)
		}
		env.mem = bm
		for _, p := range f.Params {
			t := env.resolveType(p.Type)
			var ts []*Term
			for i, c := range comps(t) {
				bv := mkVar(fmt.Sprintf("%s!r%d", p.Name, i), c.Sort)
				bound = append(bound, bv)
				ts = append(ts, bv)
			}
			val, _ := x.rebuild(t, ts)
			env.bind(p.Name, val, t)
			args = append(args, &EIdent{p.Name})
		}
		lhs, _ := x.evalCall(env, &ECall{Fn: f.Name, Args: args})
		saved := st.pc
		rhs, _ := x.eval(env, f.Body)
		st.pc = saved
		eq := valueEq(x.asPlainPure(lhs), x.asPlainPure(rhs))
		out = append(out, mkForall(bound, eq, flatten(x.asPlainPure(lhs))...))
	}
	return out
}

func sortStrings(s []string) {
	for i := 0; i < len(s); i++ {
		for j := i + 1; j < len(s); j++ {
			if s[j] < s[i] {
				s[i], s[j] = s[j], s[i]
			}
		}
	}
}

// exprText renders a contract expression roughly (for error messages).
func exprText(e Expr) string {
	switch e := e.(type) {
	case *EIdent:
		return e.Name
	case *EInt:
		return e.V
	case *ESel:
		return exprText(e.X) + "." + e.Name
	case *EIndex:
		return exprText(e.X) + "[" + exprText(e.I) + "]"
	case *ECall:
		var as []string
		for _, a := range e.Args {
			as = append(as, exprText(a))
		}
		return e.Fn + "(" + strings.Join(as, ", ") + ")"
	case *EBinary:
		return "(" + exprText(e.X) + " " + e.Op + " " + exprText(e.Y) + ")"
	case *EUnary:
		return e.Op + exprText(e.X)
	case *EOld:
		return "old(" + exprText(e.X) + ")"
	case *EQuant:
		return "forall/exists ... :: " + exprText(e.Body)
	case *ECond:
		return exprText(e.C) + " ? " + exprText(e.A) + " : " + exprText(e.B)
	}
	return fmt.Sprintf("%T", e)
}
