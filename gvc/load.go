package main

import (
	"fmt"
	"go/token"
	"go/types"
	"os"
	"sort"
	"strings"

	"golang.org/x/tools/go/packages"
	"golang.org/x/tools/go/ssa"
	"golang.org/x/tools/go/ssa/ssautil"
)

const repoMod = "github.com/jf-tech/omniparser"

// World is the loaded program: /repo's current working tree, type-checked and in go/ssa naive form.
type World struct {
	Fset  *token.FileSet
	Pkgs  []*packages.Package
	Prog  *ssa.Program
	ByPath map[string]*packages.Package
	SSAPkg map[string]*ssa.Package
	RepoDir string
}

func loadWorld(repoDir string) (*World, error) {
	cfg := &packages.Config{
		Mode:       packages.LoadAllSyntax,
		Dir:        repoDir,
		BuildFlags: []string{"-tags=verif"},
		Env: append(os.Environ(), "GOFLAGS=-mod=mod", "GOPROXY=off", "GOSUMDB=off", "GOTOOLCHAIN=local"),
	}
	pkgs, err := packages.Load(cfg, "./...")
	if err != nil {
		return nil, err
	}
	nerr := 0
	packages.Visit(pkgs, nil, func(p *packages.Package) {
		if strings.HasPrefix(p.PkgPath, repoMod) {
			for _, e := range p.Errors {
				fmt.Fprintf(os.Stderr, "load error: %s: %v\n", p.PkgPath, e)
				nerr++
			}
		}
	})
	if nerr > 0 {
		return nil, fmt.Errorf("%d load errors in repository packages", nerr)
	}
	prog, _ := ssautil.AllPackages(pkgs, ssa.NaiveForm|ssa.InstantiateGenerics)
	prog.Build()
	w := &World{Fset: pkgs[0].Fset, Pkgs: pkgs, Prog: prog, ByPath: map[string]*packages.Package{}, SSAPkg: map[string]*ssa.Package{}, RepoDir: repoDir}
	packages.Visit(pkgs, nil, func(p *packages.Package) {
		w.ByPath[p.PkgPath] = p
		if sp := prog.Package(p.Types); sp != nil {
			w.SSAPkg[p.PkgPath] = sp
		}
	})
	return w, nil
}

func inRepo(path string) bool { return path == repoMod || strings.HasPrefix(path, repoMod+"/") }

// shortPkg turns github.com/jf-tech/omniparser/idr into idr, the root package into omniparser.
func shortPkg(path string) string {
	if path == repoMod {
		return "omniparser"
	}
	if strings.HasPrefix(path, repoMod+"/") {
		return strings.TrimPrefix(path, repoMod+"/")
	}
	return path
}

// funcKey is the stable name of a function: <shortpkg>.<Recv>.<Name> or <shortpkg>.<Name>; closures get $n.
func funcKey(fn *ssa.Function) string {
	if fn == nil {
		return "<nil>"
	}
	if fn.Parent() != nil {
		return funcKey(fn.Parent()) + strings.TrimPrefix(fn.Name(), fn.Parent().Name())
	}
	pkg := ""
	if fn.Pkg != nil {
		pkg = shortPkg(fn.Pkg.Pkg.Path())
	} else if fn.Object() != nil && fn.Object().Pkg() != nil {
		pkg = shortPkg(fn.Object().Pkg().Path())
	}
	if recv := fn.Signature.Recv(); recv != nil {
		t := recv.Type()
		if p, ok := t.(*types.Pointer); ok {
			t = p.Elem()
		}
		if n, ok := t.(*types.Named); ok {
			return pkg + "." + n.Obj().Name() + "." + fn.Name()
		}
	}
	return pkg + "." + fn.Name()
}

// allFuncs returns every function and method (and nested closures) with a body, defined in packages whose path satisfies keep.
func (w *World) allFuncs(keep func(string) bool) []*ssa.Function {
	var out []*ssa.Function
	seen := map[*ssa.Function]bool{}
	var add func(fn *ssa.Function)
	add = func(fn *ssa.Function) {
		if fn == nil || seen[fn] || fn.Blocks == nil {
			return
		}
		seen[fn] = true
		out = append(out, fn)
		for _, a := range fn.AnonFuncs {
			add(a)
		}
	}
	for path, sp := range w.SSAPkg {
		if !keep(path) {
			continue
		}
		for _, m := range sp.Members {
			switch m := m.(type) {
			case *ssa.Function:
				add(m)
			case *ssa.Type:
				for _, t := range []types.Type{m.Type(), types.NewPointer(m.Type())} {
					ms := w.Prog.MethodSets.MethodSet(t)
					for i := 0; i < ms.Len(); i++ {
						f := w.Prog.MethodValue(ms.At(i))
						if f != nil && f.Synthetic == "" {
							add(f)
						}
					}
				}
			}
		}
	}
	sort.Slice(out, func(i, j int) bool { return funcKey(out[i]) < funcKey(out[j]) })
	return out
}

func (w *World) findFunc(key string) *ssa.Function {
	for _, f := range w.allFuncs(func(string) bool { return true }) {
		if funcKey(f) == key {
			return f
		}
	}
	return nil
}

func dumpFunc(w *World, key string) {
	fn := w.findFunc(key)
	if fn == nil {
		fmt.Println("no such function", key)
		return
	}
	fn.WriteTo(os.Stdout)
	for _, a := range fn.AnonFuncs {
		a.WriteTo(os.Stdout)
	}
}
