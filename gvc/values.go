package main

import (
	"fmt"
	"go/types"
	"strings"

	"golang.org/x/tools/go/ssa"
)

// Value is a symbolic Go value:
//   *Term      scalars (ints, pointers-as-references when loaded from memory, bool, string, float, interface box, map, func, chan)
//   *SliceV    slices
//   *StructV   struct values
//   TupleV     multi-value results
//   *PtrV      addresses
//   *FuncV     statically known function values / closures
type Value interface{}

type SliceV struct {
	Arr, Off, Len, Cap *Term
}
type StructV struct {
	T types.Type
	F []Value
}
type TupleV []Value

const (
	PRef    = iota // reference to a heap object (struct object, derived struct location, or boxed cell)
	PLocal         // non-escaping local variable
	PField         // field of a heap object
	PElem          // element of a slice backing array
	PGlobal        // package-level variable
	PLocalField    // field (path) of a non-escaping local struct variable kept by value
)

type PtrV struct {
	Kind   int
	Ref    *Term       // PRef: the reference; PField: base reference; PElem: array id
	Alloc  *ssa.Alloc  // PLocal
	Frame  int         // PLocal: frame id owning the local
	ST     types.Type  // PField: struct type (named)
	Field  int         // PField
	Idx    *Term       // PElem: absolute index into the backing array
	Elem   types.Type  // pointee type
	Global *ssa.Global // PGlobal
	Path   []int       // PLocalField: field indices from the local struct value down to the addressed field
}

type FuncV struct {
	Fn       *ssa.Function
	Bindings []Value
}

// comp describes one scalar component of a flattened Go value.
type comp struct {
	Suffix string
	Sort   Sort
}

func isStructType(t types.Type) (*types.Struct, bool) {
	s, ok := t.Underlying().(*types.Struct)
	return s, ok
}

// scalarSort returns the SMT sort of a non-composite Go type.
func scalarSort(t types.Type) Sort {
	switch u := t.Underlying().(type) {
	case *types.Basic:
		switch {
		case u.Info()&types.IsBoolean != 0:
			return SBool
		case u.Info()&types.IsString != 0:
			return SStr
		case u.Info()&types.IsFloat != 0, u.Info()&types.IsComplex != 0:
			return SFlt
		default:
			return SInt
		}
	}
	return SInt
}

func typeName(t types.Type) string {
	return types.TypeString(t, func(p *types.Package) string { return shortPkg(p.Path()) })
}

// zeroValue builds the zero value of a Go type.
func (x *Exec) zeroValue(t types.Type) Value {
	switch u := t.Underlying().(type) {
	case *types.Slice:
		return &SliceV{mkInt(0), mkInt(0), mkInt(0), mkInt(0)}
	case *types.Struct:
		sv := &StructV{T: t}
		for i := 0; i < u.NumFields(); i++ {
			sv.F = append(sv.F, x.zeroValue(u.Field(i).Type()))
		}
		return sv
	case *types.Array:
		return x.freshValue("zeroarr", t) // arrays by value are not modelled
	case *types.Pointer:
		return &PtrV{Kind: PRef, Ref: mkInt(0), Elem: u.Elem()}
	case *types.Tuple:
		var tv TupleV
		for i := 0; i < u.Len(); i++ {
			tv = append(tv, x.zeroValue(u.At(i).Type()))
		}
		return tv
	}
	switch scalarSort(t) {
	case SBool:
		return tFalse
	case SStr:
		return x.strLit("")
	case SFlt:
		return x.fltLit("0")
	}
	return mkInt(0)
}

// freshValue builds an unconstrained value of a Go type.
func (x *Exec) freshValue(hint string, t types.Type) Value {
	switch u := t.Underlying().(type) {
	case *types.Slice:
		s := &SliceV{x.fresh(hint+"_arr", SInt), x.fresh(hint+"_off", SInt), x.fresh(hint+"_len", SInt), x.fresh(hint+"_cap", SInt)}
		x.assume(x.sliceWF(s))
		return s
	case *types.Struct:
		sv := &StructV{T: t}
		for i := 0; i < u.NumFields(); i++ {
			sv.F = append(sv.F, x.freshValue(hint+"_"+u.Field(i).Name(), u.Field(i).Type()))
		}
		return sv
	case *types.Pointer:
		r := x.fresh(hint, SInt)
		return &PtrV{Kind: PRef, Ref: r, Elem: u.Elem()}
	case *types.Tuple:
		var tv TupleV
		for i := 0; i < u.Len(); i++ {
			tv = append(tv, x.freshValue(fmt.Sprintf("%s_%d", hint, i), u.At(i).Type()))
		}
		return tv
	case *types.Basic:
		v := x.fresh(hint, scalarSort(t))
		if r := intRange(u); r != nil {
			x.assume(mkAnd(mkCmp("<=", mkIntStr(r[0]), v), mkCmp("<=", v, mkIntStr(r[1]))))
		}
		return v
	}
	v := x.fresh(hint, scalarSort(t))
	if v.Sort == SInt {
		// references, interface boxes, maps, funcs: non-negative
		x.assume(mkCmp(">=", v, mkInt(0)))
	}
	return v
}

func intRange(b *types.Basic) []string {
	switch b.Kind() {
	case types.Int, types.Int64:
		return []string{"-9223372036854775808", "9223372036854775807"}
	case types.Int32:
		return []string{"-2147483648", "2147483647"}
	case types.Int16:
		return []string{"-32768", "32767"}
	case types.Int8:
		return []string{"-128", "127"}
	case types.Uint, types.Uint64, types.Uintptr:
		return []string{"0", "18446744073709551615"}
	case types.Uint32:
		return []string{"0", "4294967295"}
	case types.Uint16:
		return []string{"0", "65535"}
	case types.Uint8:
		return []string{"0", "255"}
	case types.UntypedInt, types.UntypedRune:
		return nil
	}
	return nil
}

func (x *Exec) sliceWF(s *SliceV) *Term {
	return mkAnd(mkCmp("<=", mkInt(0), s.Off), mkCmp("<=", mkInt(0), s.Len), mkCmp("<=", s.Len, s.Cap), mkCmp(">=", s.Arr, mkInt(0)),
		mkImplies(mkEq(s.Arr, mkInt(0)), mkAnd(mkEq(s.Len, mkInt(0)), mkEq(s.Cap, mkInt(0)))))
}

// flatten lists the scalar terms of a value (for passing to uninterpreted functions, equality, ite).
func flatten(v Value) []*Term {
	switch v := v.(type) {
	case *Term:
		return []*Term{v}
	case *SliceV:
		return []*Term{v.Arr, v.Off, v.Len, v.Cap}
	case *StructV:
		var out []*Term
		for _, f := range v.F {
			out = append(out, flatten(f)...)
		}
		return out
	case TupleV:
		var out []*Term
		for _, f := range v {
			out = append(out, flatten(f)...)
		}
		return out
	case *PtrV:
		if v.Kind == PRef {
			return []*Term{v.Ref}
		}
		return nil
	case *FuncV:
		return nil
	case nil:
		return nil
	}
	panic(fmt.Sprintf("flatten: %T", v))
}

// rebuild constructs a value of type t from scalar terms in flatten order; returns the value and the unconsumed rest.
func (x *Exec) rebuild(t types.Type, ts []*Term) (Value, []*Term) {
	switch u := t.Underlying().(type) {
	case *types.Slice:
		return &SliceV{ts[0], ts[1], ts[2], ts[3]}, ts[4:]
	case *types.Struct:
		sv := &StructV{T: t}
		for i := 0; i < u.NumFields(); i++ {
			var f Value
			f, ts = x.rebuild(u.Field(i).Type(), ts)
			sv.F = append(sv.F, f)
		}
		return sv, ts
	case *types.Pointer:
		return &PtrV{Kind: PRef, Ref: ts[0], Elem: u.Elem()}, ts[1:]
	case *types.Tuple:
		var tv TupleV
		for i := 0; i < u.Len(); i++ {
			var f Value
			f, ts = x.rebuild(u.At(i).Type(), ts)
			tv = append(tv, f)
		}
		return tv, ts
	}
	return ts[0], ts[1:]
}

// comps lists the scalar components a Go type flattens to.
func comps(t types.Type) []comp {
	switch u := t.Underlying().(type) {
	case *types.Slice:
		return []comp{{"arr", SInt}, {"off", SInt}, {"len", SInt}, {"cap", SInt}}
	case *types.Struct:
		var out []comp
		for i := 0; i < u.NumFields(); i++ {
			for _, c := range comps(u.Field(i).Type()) {
				out = append(out, comp{u.Field(i).Name() + "." + c.Suffix, c.Sort})
			}
		}
		return out
	case *types.Tuple:
		var out []comp
		for i := 0; i < u.Len(); i++ {
			for _, c := range comps(u.At(i).Type()) {
				out = append(out, comp{fmt.Sprintf("%d.%s", i, c.Suffix), c.Sort})
			}
		}
		return out
	}
	return []comp{{"", scalarSort(t)}}
}

// valueEq builds componentwise equality.
func valueEq(a, b Value) *Term {
	fa, fb := flatten(a), flatten(b)
	if len(fa) != len(fb) {
		panic(fmt.Sprintf("valueEq: shape mismatch %d vs %d (%T vs %T)", len(fa), len(fb), a, b))
	}
	var cs []*Term
	for i := range fa {
		cs = append(cs, mkEq(fa[i], fb[i]))
	}
	return mkAnd(cs...)
}

func (x *Exec) valueIte(c *Term, t types.Type, a, b Value) Value {
	fa, fb := flatten(a), flatten(b)
	var out []*Term
	for i := range fa {
		out = append(out, mkIte(c, fa[i], fb[i]))
	}
	v, _ := x.rebuild(t, out)
	return v
}

func describeValue(v Value) string {
	switch v := v.(type) {
	case *Term:
		return v.String()
	case *SliceV:
		return fmt.Sprintf("slice(%s,%s,%s,%s)", v.Arr, v.Off, v.Len, v.Cap)
	case *PtrV:
		switch v.Kind {
		case PRef:
			return "ref " + v.Ref.String()
		case PLocal:
			return "&local " + v.Alloc.Comment
		case PField:
			return fmt.Sprintf("&%s.#%d", v.Ref, v.Field)
		case PElem:
			return fmt.Sprintf("&%s[%s]", v.Ref, v.Idx)
		case PGlobal:
			return "&" + v.Global.Name()
		}
	case *StructV:
		var parts []string
		for _, f := range v.F {
			parts = append(parts, describeValue(f))
		}
		return "{" + strings.Join(parts, ",") + "}"
	}
	return fmt.Sprintf("%T", v)
}
