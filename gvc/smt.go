package main

import (
	"fmt"
	"sort"
	"strings"
)

// Sort is an SMT-LIB sort, printed verbatim.
type Sort string

const (
	SInt  Sort = "Int"
	SBool Sort = "Bool"
	SStr  Sort = "Str" // abstract strings (uninterpreted sort): equality, slen, sconcat only
	SFlt  Sort = "Flt" // floats are uninterpreted
)

func arrSort(idx, el Sort) Sort { return Sort("(Array " + string(idx) + " " + string(el) + ")") }

// UF is an uninterpreted function symbol.
type UF struct {
	Name string
	Args []Sort
	Ret  Sort
}

// Term is an SMT term. Leaves are literals (Lit) or declared constants (Var).
type Term struct {
	Op   string
	Args []*Term
	Sort Sort
	Var  bool // declared constant
	Lit  bool
	UF   *UF
	// quantifier
	Bound []*Term
	Pats  []*Term
	str   string
}

func (t *Term) String() string {
	if t.str != "" {
		return t.str
	}
	var s string
	switch {
	case t.Op == "forall" || t.Op == "exists":
		var b strings.Builder
		b.WriteString("(" + t.Op + " (")
		for _, v := range t.Bound {
			b.WriteString("(" + v.Op + " " + string(v.Sort) + ")")
		}
		b.WriteString(") ")
		if len(t.Pats) > 0 {
			b.WriteString("(! " + t.Args[0].String() + " :pattern (")
			for i, p := range t.Pats {
				if i > 0 {
					b.WriteString(" ")
				}
				b.WriteString(p.String())
			}
			b.WriteString("))")
		} else {
			b.WriteString(t.Args[0].String())
		}
		b.WriteString(")")
		s = b.String()
	case len(t.Args) == 0:
		s = t.Op
	default:
		var b strings.Builder
		b.WriteString("(" + t.Op)
		for _, a := range t.Args {
			b.WriteString(" ")
			b.WriteString(a.String())
		}
		b.WriteString(")")
		s = b.String()
	}
	t.str = s
	return s
}

var (
	tTrue  = &Term{Op: "true", Sort: SBool, Lit: true}
	tFalse = &Term{Op: "false", Sort: SBool, Lit: true}
)

func mkInt(n int64) *Term {
	if n < 0 {
		return &Term{Op: fmt.Sprintf("(- %d)", -n), Sort: SInt, Lit: true}
	}
	return &Term{Op: fmt.Sprintf("%d", n), Sort: SInt, Lit: true}
}
func mkIntStr(s string) *Term {
	if strings.HasPrefix(s, "-") {
		return &Term{Op: "(- " + s[1:] + ")", Sort: SInt, Lit: true}
	}
	return &Term{Op: s, Sort: SInt, Lit: true}
}
func mkBool(b bool) *Term {
	if b {
		return tTrue
	}
	return tFalse
}
func mkVar(name string, s Sort) *Term { return &Term{Op: name, Sort: s, Var: true} }
func app(op string, s Sort, args ...*Term) *Term {
	return &Term{Op: op, Sort: s, Args: args}
}
func ufApp(f *UF, args ...*Term) *Term {
	if len(args) != len(f.Args) {
		panic(fmt.Sprintf("uf %s arity: got %d want %d", f.Name, len(args), len(f.Args)))
	}
	if len(args) == 0 {
		return &Term{Op: f.Name, Sort: f.Ret, UF: f}
	}
	return &Term{Op: f.Name, Sort: f.Ret, Args: args, UF: f}
}

func isLitInt(t *Term) (int64, bool) {
	if !t.Lit || t.Sort != SInt {
		return 0, false
	}
	var n int64
	if strings.HasPrefix(t.Op, "(- ") {
		if _, err := fmt.Sscanf(t.Op, "(- %d)", &n); err == nil {
			return -n, true
		}
		return 0, false
	}
	if _, err := fmt.Sscanf(t.Op, "%d", &n); err == nil && fmt.Sprintf("%d", n) == t.Op {
		return n, true
	}
	return 0, false
}

func mkNot(a *Term) *Term {
	if a == tTrue {
		return tFalse
	}
	if a == tFalse {
		return tTrue
	}
	if a.Op == "not" && len(a.Args) == 1 {
		return a.Args[0]
	}
	return app("not", SBool, a)
}
func mkAnd(as ...*Term) *Term {
	var out []*Term
	for _, a := range as {
		if a == tTrue {
			continue
		}
		if a == tFalse {
			return tFalse
		}
		if a.Op == "and" && len(a.Bound) == 0 {
			out = append(out, a.Args...)
			continue
		}
		out = append(out, a)
	}
	if len(out) == 0 {
		return tTrue
	}
	if len(out) == 1 {
		return out[0]
	}
	return app("and", SBool, out...)
}
func mkOr(as ...*Term) *Term {
	var out []*Term
	for _, a := range as {
		if a == tFalse {
			continue
		}
		if a == tTrue {
			return tTrue
		}
		out = append(out, a)
	}
	if len(out) == 0 {
		return tFalse
	}
	if len(out) == 1 {
		return out[0]
	}
	return app("or", SBool, out...)
}
func mkImplies(a, b *Term) *Term {
	if a == tTrue {
		return b
	}
	if a == tFalse || b == tTrue {
		return tTrue
	}
	if b == tFalse {
		return mkNot(a)
	}
	return app("=>", SBool, a, b)
}
func mkEq(a, b *Term) *Term {
	if a.Sort != b.Sort {
		panic(fmt.Sprintf("mkEq sort mismatch: %s:%s vs %s:%s", a, a.Sort, b, b.Sort))
	}
	if a == b || a.String() == b.String() {
		return tTrue
	}
	if a.Lit && b.Lit {
		return tFalse // distinct literals of the same sort
	}
	return app("=", SBool, a, b)
}
func mkNe(a, b *Term) *Term { return mkNot(mkEq(a, b)) }
func mkIte(c, a, b *Term) *Term {
	if c == tTrue {
		return a
	}
	if c == tFalse {
		return b
	}
	if a.Sort != b.Sort {
		panic(fmt.Sprintf("mkIte sort mismatch %s vs %s", a.Sort, b.Sort))
	}
	if a.String() == b.String() {
		return a
	}
	return app("ite", a.Sort, c, a, b)
}
func mkCmp(op string, a, b *Term) *Term {
	if x, ok := isLitInt(a); ok {
		if y, ok := isLitInt(b); ok {
			switch op {
			case "<":
				return mkBool(x < y)
			case "<=":
				return mkBool(x <= y)
			case ">":
				return mkBool(x > y)
			case ">=":
				return mkBool(x >= y)
			}
		}
	}
	return app(op, SBool, a, b)
}
// mkAdd builds a canonical n-ary sum: nested sums are flattened, literals folded, the remaining summands sorted by their text.
// (Canonical index terms are what lets quantifier patterns such as (select row (+ i off)) match ground terms.)
func mkAdd(a, b *Term) *Term {
	var parts []*Term
	var lit int64
	litOK := true
	var collect func(t *Term)
	collect = func(t *Term) {
		if n, ok := isLitInt(t); ok {
			if (lit > 0 && n > (1<<62)) || (lit < 0 && n < -(1<<62)) {
				litOK = false
			}
			lit += n
			return
		}
		if t.Op == "+" && len(t.Bound) == 0 && !t.Lit && t.UF == nil {
			for _, x := range t.Args {
				collect(x)
			}
			return
		}
		parts = append(parts, t)
	}
	collect(a)
	collect(b)
	if !litOK {
		return app("+", SInt, a, b)
	}
	sort.SliceStable(parts, func(i, j int) bool { return parts[i].String() < parts[j].String() })
	if lit != 0 {
		parts = append(parts, mkInt(lit))
	}
	switch len(parts) {
	case 0:
		return mkInt(0)
	case 1:
		return parts[0]
	}
	return app("+", SInt, parts...)
}
func mkSub(a, b *Term) *Term {
	if y, ok := isLitInt(b); ok {
		return mkAdd(a, mkInt(-y))
	}
	if a.String() == b.String() {
		return mkInt(0)
	}
	// a - (b1 + b2 + lit) keeps the literal part canonical
	return app("-", SInt, a, b)
}
func mkMul(a, b *Term) *Term {
	if x, ok := isLitInt(a); ok {
		if y, ok := isLitInt(b); ok {
			// avoid overflow in folding
			if x == 0 || y == 0 {
				return mkInt(0)
			}
			p := x * y
			if p/y == x {
				return mkInt(p)
			}
		}
	}
	return app("*", SInt, a, b)
}
func mkSelect(arr, idx *Term) *Term {
	s := string(arr.Sort)
	// (Array I E) -> E
	el := arrayElemSort(Sort(s))
	// read-over-write simplification on syntactically equal index
	for cur := arr; cur.Op == "store" && len(cur.Args) == 3; cur = cur.Args[0] {
		if cur.Args[1].String() == idx.String() {
			return cur.Args[2]
		}
		// only step over stores at provably different literal indices
		_, l1 := isLitInt(cur.Args[1])
		_, l2 := isLitInt(idx)
		if !(l1 && l2) {
			break
		}
	}
	return app("select", el, arr, idx)
}
func mkStore(arr, idx, v *Term) *Term {
	if arrayElemSort(arr.Sort) != v.Sort {
		panic(fmt.Sprintf("mkStore sort mismatch: array %s value %s:%s", arr.Sort, v, v.Sort))
	}
	return app("store", arr.Sort, arr, idx, v)
}

// arrayElemSort parses "(Array I E)" and returns E.
func arrayElemSort(s Sort) Sort {
	str := string(s)
	if !strings.HasPrefix(str, "(Array ") {
		panic("not an array sort: " + str)
	}
	body := str[len("(Array ") : len(str)-1]
	// index sort is first token or parenthesised group
	depth := 0
	for i := 0; i < len(body); i++ {
		switch body[i] {
		case '(':
			depth++
		case ')':
			depth--
		case ' ':
			if depth == 0 {
				return Sort(body[i+1:])
			}
		}
	}
	panic("bad array sort " + str)
}
func arrayIdxSort(s Sort) Sort {
	str := string(s)
	body := str[len("(Array ") : len(str)-1]
	depth := 0
	for i := 0; i < len(body); i++ {
		switch body[i] {
		case '(':
			depth++
		case ')':
			depth--
		case ' ':
			if depth == 0 {
				return Sort(body[:i])
			}
		}
	}
	panic("bad array sort " + str)
}

func mkForall(bound []*Term, body *Term, pats ...*Term) *Term {
	if len(bound) == 0 || body == tTrue {
		return body
	}
	// patterns must not contain interpreted control (ite) and must mention every bound variable together
	var ok []*Term
	for _, p := range pats {
		if !strings.Contains(p.String(), "(ite ") {
			ok = append(ok, p)
		}
	}
	pats = ok
	return &Term{Op: "forall", Sort: SBool, Args: []*Term{body}, Bound: bound, Pats: pats}
}
func mkExists(bound []*Term, body *Term) *Term {
	if len(bound) == 0 {
		return body
	}
	return &Term{Op: "exists", Sort: SBool, Args: []*Term{body}, Bound: bound}
}

// hasQuant reports whether t contains a quantifier.
func hasQuant(t *Term) bool {
	if t.Op == "forall" || t.Op == "exists" {
		return true
	}
	for _, a := range t.Args {
		if hasQuant(a) {
			return true
		}
	}
	return false
}

// collectDecls walks terms and returns SMT declarations for every constant and uninterpreted function used.
func collectDecls(terms []*Term) (decls []string, strlits map[string]string) {
	vars := map[string]Sort{}
	ufs := map[string]*UF{}
	seen := map[*Term]bool{}
	var walk func(t *Term, bound map[string]bool)
	walk = func(t *Term, bound map[string]bool) {
		if len(t.Bound) == 0 {
			if seen[t] {
				return
			}
			seen[t] = true
		}
		if len(t.Bound) > 0 {
			nb := map[string]bool{}
			for k := range bound {
				nb[k] = true
			}
			for _, v := range t.Bound {
				nb[v.Op] = true
			}
			for _, a := range t.Args {
				walk(a, nb)
			}
			for _, p := range t.Pats {
				walk(p, nb)
			}
			return
		}
		if t.Var && !bound[t.Op] {
			vars[t.Op] = t.Sort
		}
		if t.UF != nil {
			ufs[t.UF.Name] = t.UF
		}
		for _, a := range t.Args {
			walk(a, bound)
		}
	}
	for _, t := range terms {
		walk(t, map[string]bool{})
	}
	var names []string
	for n := range vars {
		names = append(names, n)
	}
	sort.Strings(names)
	for _, n := range names {
		decls = append(decls, fmt.Sprintf("(declare-const %s %s)", n, vars[n]))
	}
	names = names[:0]
	for n := range ufs {
		names = append(names, n)
	}
	sort.Strings(names)
	for _, n := range names {
		f := ufs[n]
		var as []string
		for _, a := range f.Args {
			as = append(as, string(a))
		}
		decls = append(decls, fmt.Sprintf("(declare-fun %s (%s) %s)", n, strings.Join(as, " "), f.Ret))
	}
	return decls, nil
}

var smtIdentRepl = strings.NewReplacer("/", "_", ".", "_", "*", "P", "[", "L", "]", "R", " ", "_", "(", "_", ")", "_", ",", "_", "{", "_", "}", "_", "-", "_", "$", "_", ";", "_", "#", "_", "\"", "_", ":", "_", "|", "_", "'", "_", "!", "_", "@", "_", "<", "_", ">", "_", "=", "_", "&", "_")

func smtIdent(s string) string { return smtIdentRepl.Replace(s) }
