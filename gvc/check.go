package main

import (
	"regexp"
	"encoding/json"
	"fmt"
	"os"
	"path/filepath"
	"sort"
	"strconv"
	"strings"
	"time"

	"golang.org/x/tools/go/ssa"
)

type PropConfig struct {
	Title       string   `json:"title"`
	Level       string   `json:"level"`
	Funcs       []string `json:"funcs"`        // "<funckey>" or "<funckey>#kind1,kind2"
	Lemmas      []string `json:"lemmas"`
	Frames      []string `json:"frames"`       // whole-program frame checks (frame.go)
	Kinds       []string `json:"kinds"`        // default kinds counted for listed functions
	TrustedBase []string `json:"trusted_base"`
	Assumptions []string `json:"assumptions"`
	Bounded     []string `json:"bounded"`
	BoundedFuncs []string `json:"bounded_funcs"` // functions checked in bounded mode (their contract carries `bounded k d`); never counted as proved
	Explanation string   `json:"explanation"`
}

var defaultKinds = []string{"ensures", "requires@", "frame", "loop", "lemma", "overflow", "refines", "atcall"}

type namedResult struct {
	Name      string
	Desc      string
	Pos       string
	Instances int
	Failed    []*failedInst
	Backends  map[string]int
	Seconds   float64
}
type failedInst struct {
	o *Oblig
	v *Verdict
}

func verifRoot() string {
	if d := os.Getenv("VERIF_ROOT"); d != "" {
		return d
	}
	exe, err := os.Executable()
	if err == nil {
		d := filepath.Dir(filepath.Dir(exe))
		if _, err := os.Stat(filepath.Join(d, "specs")); err == nil {
			return d
		}
	}
	return "/verif"
}

func kindMatches(kind string, sel []string) bool {
	for _, s := range sel {
		if kind == s || strings.HasPrefix(kind, s) {
			return true
		}
		// "termination" selects the variant obligations of loops (loopK.decreases)
		if s == "termination" && strings.HasPrefix(kind, "loop") && strings.HasSuffix(kind, ".decreases") {
			return true
		}
		// ... and the recursion variant obligations (variant:bounded.N, variant@callee)
		if s == "termination" && strings.HasPrefix(kind, "variant") {
			return true
		}
	}
	return false
}

// nameMatches: a selector "re:<regexp>" picks obligations by the part of their name after '#' (used where only some of a
// function's obligations are claimed, e.g. the template-stack preconditions at the calls inside the trusted validateDecl).
func nameMatches(name string, sel []string) bool {
	i := strings.Index(name, "#")
	if i < 0 {
		return false
	}
	for _, s := range sel {
		if strings.HasPrefix(s, "re:") {
			if ok, _ := regexp.MatchString(strings.TrimPrefix(s, "re:"), name[i+1:]); ok {
				return true
			}
		}
	}
	return false
}

type knownFinding struct {
	State, Property, Obligation, Rest string
}

func loadKnownFindings(path string) []knownFinding {
	data, err := os.ReadFile(path)
	if err != nil {
		return nil
	}
	var out []knownFinding
	for _, line := range strings.Split(string(data), "\n") {
		line = strings.TrimSpace(line)
		if line == "" || strings.HasPrefix(line, "#") {
			continue
		}
		var kf knownFinding
		i := strings.Index(line, ":")
		if i < 0 {
			continue
		}
		kf.State = line[:i]
		rest := strings.TrimSpace(line[i+1:])
		for _, f := range strings.Fields(rest) {
			if strings.HasPrefix(f, "property=") {
				kf.Property = strings.TrimPrefix(f, "property=")
			}
			if strings.HasPrefix(f, "obligation=") {
				kf.Obligation = strings.TrimPrefix(f, "obligation=")
			}
		}
		kf.Rest = rest
		out = append(out, kf)
	}
	return out
}

func runCheck(repo, prop, tier string) int {
	t0 := time.Now()
	root := verifRoot()
	seed, _ := strconv.Atoi(os.Getenv("VERIF_SEED"))
	cfgs := map[string]*PropConfig{}
	data, err := os.ReadFile(filepath.Join(root, "specs", "props.json"))
	if err != nil {
		fmt.Fprintln(os.Stderr, err)
		return 2
	}
	if err := json.Unmarshal(data, &cfgs); err != nil {
		fmt.Fprintln(os.Stderr, "props.json:", err)
		return 2
	}
	cfg := cfgs[prop]
	if cfg == nil {
		fmt.Fprintln(os.Stderr, "no such property in props.json:", prop)
		return 2
	}
	w, err := loadWorld(repo)
	if err != nil {
		// the tree does not build: that is not a property verdict
		fmt.Fprintln(os.Stderr, "cannot load repository:", err)
		return 2
	}
	sp, err := loadSpecs(w, filepath.Join(root, "specs", "extern"))
	if err != nil {
		fmt.Fprintln(os.Stderr, "contracts:", err)
		return 2
	}
	tsec := 10
	allAgree := false
	if tier == "thorough" {
		tsec = 60
		allAgree = true
	}
	// VERIF_OUT (development aid, used by tools/seed_run_wt.sh): scratch output directory for runs against a seeded copy of the
	// repository, so that such a run never overwrites the evidence of the unchanged tree
	outRoot := root
	if d := os.Getenv("VERIF_OUT"); d != "" {
		outRoot = d
	}
	workDir := filepath.Join(outRoot, "work", prop)
	os.RemoveAll(workDir)
	os.MkdirAll(workDir, 0o755)
	replayDir := filepath.Join(outRoot, "replays", prop)
	os.RemoveAll(replayDir)

	kinds := cfg.Kinds
	if len(kinds) == 0 {
		kinds = defaultKinds
	}
	byKey := map[string]*ssa.Function{}
	for _, f := range w.allFuncs(inRepo) {
		byKey[funcKey(f)] = f
	}
	var jobs []job
	var funcsUnder []string
	var unbound []string
	var engineFailures []string
	notes := map[string]bool{}
	usedExtern := map[string]bool{}
	loopsNoVariant := []string{}
	rangeLoops, loopsWithVariant, variantCalls := 0, 0, 0
	paths := 0
	for _, fsel := range cfg.Funcs {
		key, sel := fsel, kinds
		if i := strings.Index(fsel, "#"); i >= 0 {
			key = fsel[:i]
			sel = strings.Split(fsel[i+1:], ",")
		}
		fn := byKey[key]
		if fn == nil {
			unbound = append(unbound, key+" (function not found in the current tree)")
			continue
		}
		spec := sp.lookupFunc(fn)
		if spec == nil {
			unbound = append(unbound, key+" (no contract found)")
			continue
		}
		safety := kindMatches("nonnil", sel) || kindMatches("index", sel) || kindMatches("panic", sel) || kindMatches("safety", sel)
		res := verifyFunc(w, sp, fn, spec, safety || true)
		if res.Err != "" || res.TooLarge || len(res.Unsupported) > 0 {
			engineFailures = append(engineFailures, fmt.Sprintf("%s: err=%q tooLarge=%v unsupported=%v", key, res.Err, res.TooLarge, res.Unsupported))
			continue
		}
		funcsUnder = append(funcsUnder, key)
		paths += res.Paths
		for _, n := range res.Notes {
			notes[n] = true
		}
		for _, e := range res.UsedExtern {
			usedExtern[e] = true
		}
		rangeLoops += res.RangeLoops
		variantCalls += res.VariantCalls
		loopsWithVariant += res.LoopsWithVariant
		for _, k := range res.LoopsNoVariant {
			loopsNoVariant = append(loopsNoVariant, fmt.Sprintf("%s loop %d", key, k))
		}
		safetySel := sel
		if kindMatches("safety", sel) {
			safetySel = append(append([]string{}, sel...), "nonnil", "index", "slice", "assert", "panic", "div", "makeslice")
		}
		for i, o := range res.Obligs {
			if o.Kind == "cover" || kindMatches(o.Kind, safetySel) || nameMatches(o.Name, sel) {
				jobs = append(jobs, job{o, res.Lits, i})
			}
		}
	}
	boundedNames := map[string]bool{}
	var boundedInfo []map[string]interface{}
	for _, key := range cfg.BoundedFuncs {
		fn := byKey[key]
		if fn == nil {
			unbound = append(unbound, key+" (bounded: function not found)")
			continue
		}
		spec := sp.lookupFunc(fn)
		if spec == nil || spec.BoundK == 0 {
			unbound = append(unbound, key+" (bounded: no contract with a `bounded k d` clause)")
			continue
		}
		res := verifyFunc(w, sp, fn, spec, true)
		if res.Err != "" || res.TooLarge || len(res.Unsupported) > 0 {
			engineFailures = append(engineFailures, fmt.Sprintf("%s: err=%q tooLarge=%v unsupported=%v", key, res.Err, res.TooLarge, res.Unsupported))
			continue
		}
		n := 0
		for i, o := range res.Obligs {
			if o.Kind == "cover" || kindMatches(o.Kind, kinds) {
				o.Name = o.Name + " [bounded]"
				boundedNames[o.Name] = true
				jobs = append(jobs, job{o, res.Lits, i})
				n++
			}
		}
		boundedInfo = append(boundedInfo, map[string]interface{}{"function": key, "loop_unroll_k": spec.BoundK, "recursion_depth_d": spec.BoundD,
			"complete_paths": res.Paths, "paths_cut_at_bound": res.Cuts, "query_instances": n})
		for _, nn := range res.Notes {
			notes[nn] = true
		}
	}
	for _, ln := range cfg.Lemmas {
		var l *LemmaSpec
		for _, c := range sp.Lemmas {
			if c.Name == ln {
				l = c
			}
		}
		if l == nil {
			unbound = append(unbound, "lemma "+ln+" (not found)")
			continue
		}
		res := verifyLemma(w, sp, l)
		if res.Err != "" {
			engineFailures = append(engineFailures, "lemma "+ln+": "+res.Err)
			continue
		}
		funcsUnder = append(funcsUnder, "lemma "+ln)
		for i, o := range res.Obligs {
			jobs = append(jobs, job{o, res.Lits, i})
		}
	}
	// whole-program frame obligations (SSA footprint analysis, back end "frame")
	var frameResults []*FrameResult
	for _, fr := range cfg.Frames {
		frameResults = append(frameResults, runFrame(w, sp, fr))
	}

	// obligations recorded as open known findings are expected to fail: they get the short pipeline (the long portfolio and the
	// hypothesis-subset retry are skipped), so a known finding does not cost a minute per failing path on every run
	for _, kf := range loadKnownFindings(filepath.Join(root, "known_findings.txt")) {
		if kf.State == "open" && kf.Property == prop {
			for _, j := range jobs {
				if j.o.Name == kf.Obligation {
					j.o.ExpectFail = true
				}
			}
		}
	}
	verdicts := dischargeAll(jobs, workDir, tsec, allAgree, 16)
	named := map[string]*namedResult{}
	var order []string
	solverTime := 0.0
	byBackend := map[string]int{}
	covers, vacuous := 0, 0
	for i, j := range jobs {
		v := verdicts[i]
		solverTime += v.Seconds
		if j.o.Cover {
			covers++
			if v.Status == "vacuous" {
				vacuous++
				nr := &namedResult{Name: j.o.Name, Desc: j.o.Desc, Instances: 1, Backends: map[string]int{}}
				nr.Failed = append(nr.Failed, &failedInst{j.o, v})
				named[j.o.Name] = nr
				order = append(order, j.o.Name)
			}
			continue
		}
		nr := named[j.o.Name]
		if nr == nil {
			nr = &namedResult{Name: j.o.Name, Desc: j.o.Desc, Pos: j.o.Pos, Backends: map[string]int{}}
			named[j.o.Name] = nr
			order = append(order, j.o.Name)
		}
		nr.Instances++
		nr.Seconds += v.Seconds
		if os.Getenv("GVC_SLOW") != "" && v.Seconds > 4 {
			fmt.Fprintf(os.Stderr, "SLOW %.1fs %s [%s] %v\n", v.Seconds, j.o.Name, v.Backend, v.Tried)
		}
		if v.Status == "discharged" {
			nr.Backends[v.Backend]++
			byBackend[v.Backend]++
		} else {
			nr.Failed = append(nr.Failed, &failedInst{j.o, v})
		}
	}
	for _, fr := range frameResults {
		nr := &namedResult{Name: fr.Name, Desc: fr.Desc, Instances: 1, Backends: map[string]int{}}
		if fr.OK {
			nr.Backends["frame"] = 1
			byBackend["frame"]++
		} else {
			nr.Failed = append(nr.Failed, &failedInst{&Oblig{Name: fr.Name, Desc: fr.Desc, Goal: tFalse}, &Verdict{Status: "failed", Backend: "frame", Output: strings.Join(fr.Violations, "\n")}})
		}
		named[fr.Name] = nr
		order = append(order, fr.Name)
		funcsUnder = append(funcsUnder, fmt.Sprintf("frame %s over %d functions", fr.Name, fr.Functions))
	}
	for _, ef := range engineFailures {
		name := strings.SplitN(ef, ":", 2)[0] + "#analysable"
		nr := &namedResult{Name: name, Desc: "the function is inside the verified subset and its contract binds", Instances: 1, Backends: map[string]int{}}
		nr.Failed = append(nr.Failed, &failedInst{&Oblig{Name: name, Desc: ef, Goal: tFalse}, &Verdict{Status: "failed", Output: ef}})
		named[name] = nr
		order = append(order, name)
	}

	known := loadKnownFindings(filepath.Join(root, "known_findings.txt"))
	isKnown := func(name string) *knownFinding {
		for i := range known {
			if known[i].State == "open" && known[i].Property == prop && known[i].Obligation == name {
				return &known[i]
			}
		}
		return nil
	}
	total, discharged, violations := 0, 0, 0
	var samples []map[string]interface{}
	var knownLines []string
	sort.Strings(order)
	boundedTotal, boundedOK := 0, 0
	for _, name := range order {
		nr := named[name]
		if boundedNames[name] {
			boundedTotal++
			if len(nr.Failed) == 0 {
				boundedOK++
				continue
			}
		} else {
			total++
		}
		if len(nr.Failed) == 0 {
			discharged++
			if len(samples) < 12 {
				samples = append(samples, map[string]interface{}{"obligation": name, "meaning": nr.Desc, "instances": nr.Instances, "backends": nr.Backends, "at": nr.Pos})
			}
			continue
		}
		if kf := isKnown(name); kf != nil {
			line := fmt.Sprintf("KNOWN-FINDING: property=%s %s", prop, strings.TrimSpace(strings.TrimPrefix(kf.Rest, "property="+prop)))
			fmt.Println(line)
			knownLines = append(knownLines, line)
			if !boundedNames[name] {
				total-- // a recorded finding is reported separately, not as an obligation of the claim
			}
			continue
		}
		violations++
		os.MkdirAll(replayDir, 0o755)
		rp := filepath.Join(replayDir, smtIdent(name)+".json")
		confirmed := writeReplay(w, rp, prop, nr)
		suffix := ""
		if !confirmed {
			suffix = " no-failing-input-found"
		}
		fmt.Printf("VIOLATION property=%s replay=%s%s\n", prop, rp, suffix)
		fmt.Printf("  obligation %s failed (%d of %d instances): %s\n", name, len(nr.Failed), nr.Instances, nr.Desc)
	}
	for _, u := range unbound {
		fmt.Println("UNBOUND-CONTRACT", u)
	}
	// evidence
	var assumptions []string
	assumptions = append(assumptions, cfg.Assumptions...)
	var exts []string
	for e := range usedExtern {
		exts = append(exts, e)
	}
	sort.Strings(exts)
	for _, e := range exts {
		assumptions = append(assumptions, "assumed contract: "+e)
	}
	var ns []string
	for n := range notes {
		ns = append(ns, n)
	}
	sort.Strings(ns)
	assumptions = append(assumptions, ns...)
	if rangeLoops+loopsWithVariant > 0 {
		assumptions = append(assumptions, fmt.Sprintf("termination: %d range loops terminate by construction, %d loops have a proved variant (obligations loopK.decreases)", rangeLoops, loopsWithVariant))
	}
	if variantCalls > 0 {
		assumptions = append(assumptions, fmt.Sprintf("termination: %d call sites between recursive functions carry a proved lexicographic variant (obligations variant@callee, variant:bounded.N)", variantCalls))
	}
	if len(loopsNoVariant) > 0 {
		assumptions = append(assumptions, "termination not checked for: "+strings.Join(loopsNoVariant, ", "))
	}
	assumptions = append(assumptions, "sequential execution; goroutines and data races are not modelled")
	for _, fr := range frameResults {
		assumptions = append(assumptions, fr.Assumptions...)
	}
	level := cfg.Level
	if level == "" {
		level = "proof"
	}
	tb := append([]string{"go/packages + go/types + go/ssa (naive form) as the translation of /repo's source", "gvc (this VC generator)", "z3 5.1.0 (z3-new), cvc5 1.0.x, z3 4.8.12"}, cfg.TrustedBase...)
	cov := map[string]interface{}{
		"obligations":              total,
		"discharged":               discharged,
		"instances":                len(jobs) - covers,
		"paths_explored":           paths,
		"checker_cmd":              fmt.Sprintf("gvc check -property %s -tier %s (solver timeout %ds per query)", prop, tier, tsec),
		"trusted_base":             tb,
		"functions_under_contract": funcsUnder,
		"by_backend":               byBackend,
		"solver_time_s":            round2(solverTime),
		"samples":                  samples,
		"vacuity_probes":           covers,
		"vacuous":                  vacuous,
		"unbound_contracts":        unbound,
		"known_findings":           knownLines,
		"bounded":                  boundedInfo,
		"bounded_obligations":      boundedTotal,
		"bounded_obligations_ok":   boundedOK,
		"bounded_note":             "bounded checks are stand-ins: they are not counted in obligations/discharged",
		"explanation":              cfg.Explanation,
		"evaluations":              len(jobs),
		"distinct_nontrivial":      total,
		"rule":                     "one evaluation = one SMT query (one path instance of a named obligation, or a vacuity probe); distinct_nontrivial = number of distinct named obligations",
	}
	for _, fr := range frameResults {
		cov["frame:"+fr.Name] = fr.Summary
	}
	ev := map[string]interface{}{
		"property_id": prop, "tier": tier, "seed": seed, "level": level, "coverage": cov, "assumptions": assumptions,
		"wall_s": round2(time.Since(t0).Seconds()), "violations": violations,
	}
	os.MkdirAll(filepath.Join(outRoot, "evidence"), 0o755)
	out, _ := json.MarshalIndent(ev, "", " ")
	os.WriteFile(filepath.Join(outRoot, "evidence", prop+".json"), out, 0o644)
	fmt.Printf("%s %s: %d named obligations, %d discharged, %d violations, %d known findings, %d queries, %.1fs solver, %.1fs wall\n",
		prop, tier, total, discharged, violations, len(knownLines), len(jobs), solverTime, time.Since(t0).Seconds())
	if total == 0 {
		fmt.Printf("VIOLATION property=%s replay=%s no-failing-input-found\n  no obligations were generated (vacuous check)\n", prop, filepath.Join(root, "evidence", prop+".json"))
		return 1
	}
	if violations > 0 {
		return 1
	}
	return 0
}

func round2(f float64) float64 { return float64(int(f*100+0.5)) / 100 }

// writeReplay records the failed obligation; returns whether a failing input was confirmed on the real code.
func writeReplay(w *World, path, prop string, nr *namedResult) bool {
	type inst struct {
		Path, At, Backend, Output, SMTFile string
		Tried                              []string
	}
	rec := map[string]interface{}{"property": prop, "obligation": nr.Name, "meaning": nr.Desc, "failed_instances": len(nr.Failed), "instances": nr.Instances}
	var insts []inst
	for _, f := range nr.Failed {
		insts = append(insts, inst{f.o.Path, f.o.Pos, f.v.Backend, f.v.Output, f.v.File, f.v.Tried})
	}
	rec["instances_detail"] = insts
	confirmed, replayInfo := tryReplay(w, prop, nr)
	rec["replay"] = replayInfo
	rec["confirmed_on_real_code"] = confirmed
	out, _ := json.MarshalIndent(rec, "", " ")
	os.WriteFile(path, out, 0o644)
	return confirmed
}
