package main

import (
	"fmt"
	"go/token"
	"go/types"
	"sort"
	"strings"

	"golang.org/x/tools/go/ssa"
)

// Whole-program frame obligations (DESIGN §3.6): write/read footprints computed on SSA over the static call graph.
// Back end "frame" in the evidence. Sound over-approximation under the stated assumptions about dependencies.

type FrameResult struct {
	Name        string
	Desc        string
	OK          bool
	Violations  []string
	Functions   int
	Summary     interface{}
	Assumptions []string
}

var frameChecks = map[string]func(w *World, sp *Specs) *FrameResult{}

func runFrame(w *World, sp *Specs, name string) *FrameResult {
	if f, ok := frameChecks[name]; ok {
		return f(w, sp)
	}
	if fs, ok := sp.Frames[name]; ok {
		return evalFrameSpec(w, sp, fs)
	}
	return &FrameResult{Name: name, Desc: "unknown frame check", OK: false, Violations: []string{"frame obligation " + name + " is not declared in any contract file"}}
}

func matchFunc(key string, allowed []string) bool {
	for _, a := range allowed {
		if a == key || strings.HasSuffix(key, "."+a) || strings.HasPrefix(key, a+"$") || strings.HasPrefix(key, a+"#") {
			return true
		}
		// closures of an allowed function
		if i := strings.Index(key, "$"); i >= 0 && (key[:i] == a || strings.HasSuffix(key[:i], "."+a)) {
			return true
		}
	}
	return false
}

// evalFrameSpec decides a `frame` item of a contract file.
func evalFrameSpec(w *World, sp *Specs, fs *FrameSpec) *FrameResult {
	res := &FrameResult{Name: "frame." + fs.Name, Desc: "whole-program frame obligation " + fs.Name + " (" + filepathBase(fs.File) + ")", OK: true}
	x := newExec(w, sp, nil, nil)
	env := x.newEnv(nil, fs.PkgPath)
	resolveField := func(tf string) (string, string) { // returns canonical type name, field
		i := strings.LastIndex(tf, ".")
		var T types.Type
		func() {
			defer func() { recover() }()
			T = env.resolveType(tf[:i])
		}()
		if T == nil {
			res.OK = false
			res.Violations = append(res.Violations, "cannot resolve type in "+tf)
			return "", ""
		}
		if st, ok := isStructType(T); ok && fieldIndex(st, tf[i+1:]) < 0 {
			res.OK = false
			res.Violations = append(res.Violations, "no such field: "+tf)
		}
		return typeName(T), tf[i+1:]
	}
	var roots []*ssa.Function
	all := w.allFuncs(inRepo)
	byKey := map[string]*ssa.Function{}
	for _, f := range all {
		byKey[funcKey(f)] = f
	}
	if len(fs.Roots) == 0 {
		for _, f := range all {
			if !strings.Contains(pkgPathOf(f), "/cli") && !strings.Contains(pkgPathOf(f), "/samples") {
				roots = append(roots, f)
			}
		}
	} else {
		for _, r := range fs.Roots {
			f := byKey[r]
			if f == nil {
				// a whole package: every function of it
				n := 0
				for k, ff := range byKey {
					rest := strings.TrimPrefix(k, r+".")
					// a package as root: its exported functions and methods (what reflection / callers outside can reach)
					if strings.HasPrefix(k, r+".") && !strings.Contains(rest, "/") && ff.Parent() == nil && token.IsExported(ff.Name()) {
						roots = append(roots, ff)
						n++
					}
				}
				if n == 0 {
					res.OK = false
					res.Violations = append(res.Violations, "root not found: "+r)
				}
				continue
			}
			roots = append(roots, f)
		}
	}
	track := map[string]bool{}
	for _, r := range fs.ReadsOnly {
		for _, f := range r.Fields {
			tn, fn := resolveField(f)
			track[tn+"."+fn] = true
		}
	}
	fp := w.footprint(roots, &reachCfg{trackReads: track})
	res.Functions = len(fp.Funcs)
	summary := map[string]interface{}{"functions_in_reach": len(fp.Funcs), "store_sites": len(fp.Stores), "external_callees": len(fp.External), "dynamic_call_sites": len(fp.Dynamic)}
	// writesonly
	for _, r := range fs.WritesOnly {
		want := map[string]bool{}
		for _, f := range r.Fields {
			tn, fn := resolveField(f)
			want[tn+"."+fn] = true
		}
		seen := map[string]bool{}
		for _, s := range fp.Stores {
			if s.Field == "" || !want[s.Type+"."+s.Field] {
				continue
			}
			seen[funcKey(s.Fn)] = true
			if !matchFunc(funcKey(s.Fn), r.Funcs) {
				res.OK = false
				res.Violations = append(res.Violations, fmt.Sprintf("store to %s.%s in %s (%s) outside the allowed writers %v", s.Type, s.Field, funcKey(s.Fn), s.Pos, r.Funcs))
			}
		}
		var ws []string
		for k := range seen {
			ws = append(ws, k)
		}
		sort.Strings(ws)
		summary["writers of "+strings.Join(r.Fields, ",")] = ws
	}
	for _, r := range fs.ReadsOnly {
		for _, f := range r.Fields {
			tn, fn := resolveField(f)
			readers := fp.Reads[tn+"."+fn]
			sort.Strings(readers)
			uniq := []string{}
			for i, rr := range readers {
				if i == 0 || readers[i-1] != rr {
					uniq = append(uniq, rr)
				}
			}
			summary["readers of "+f] = uniq
			for _, rr := range uniq {
				if !matchFunc(rr, r.Funcs) {
					res.OK = false
					res.Violations = append(res.Violations, fmt.Sprintf("load of %s in %s outside the allowed readers %v", f, rr, r.Funcs))
				}
			}
		}
	}
	// nowrite types
	if len(fs.NoWrite) > 0 {
		forbidden := map[string]bool{}
		for _, t := range fs.NoWrite {
			var T types.Type
			func() {
				defer func() { recover() }()
				T = env.resolveType(t)
			}()
			if T == nil {
				res.OK = false
				res.Violations = append(res.Violations, "cannot resolve type "+t)
				continue
			}
			forbidden[typeName(T)] = true
		}
		var localInit []string
		for _, s := range fp.Stores {
			if s.Field == "" || !forbidden[s.Type] {
				continue
			}
			if s.Local {
				localInit = append(localInit, fmt.Sprintf("%s.%s in %s", s.Type, s.Field, funcKey(s.Fn)))
				continue
			}
			res.OK = false
			res.Violations = append(res.Violations, fmt.Sprintf("store to %s.%s of a shared (not locally allocated) object in %s (%s)", s.Type, s.Field, funcKey(s.Fn), s.Pos))
		}
		sort.Strings(localInit)
		summary["stores initialising objects allocated in the same function (allowed)"] = dedup(localInit)
	}
	if fs.NoGlobalStore {
		except := map[string]bool{}
		for _, g := range fs.GlobalsExcept {
			except[g] = true
		}
		for _, s := range fp.Stores {
			if strings.HasPrefix(s.Heap, "global:") {
				g := strings.TrimPrefix(s.Heap, "global:")
				if !except[g] && !except[shortPkg(g[:strings.LastIndex(g, ".")])+g[strings.LastIndex(g, "."):]] {
					res.OK = false
					res.Violations = append(res.Violations, fmt.Sprintf("store to package-level variable %s in %s (%s)", g, funcKey(s.Fn), s.Pos))
				}
			}
		}
		var ga []string
		for g, users := range fp.GlobalAddr {
			ga = append(ga, g+" <- "+strings.Join(dedup(users), "; "))
		}
		sort.Strings(ga)
		summary["package-level variables whose address is passed to a call"] = ga
	}
	for _, r := range fs.NoCall {
		for name := range fp.External {
			for _, banned := range r.Fields {
				if name == banned || externMatches(name, banned) {
					// who calls it?
					for f := range fp.Funcs {
						for _, b := range f.Blocks {
							for _, in := range b.Instrs {
								if c, ok := in.(ssa.CallInstruction); ok && !c.Common().IsInvoke() {
									if cf, ok := c.Common().Value.(*ssa.Function); ok && cf.String() == name && !matchFunc(funcKey(f), r.Funcs) {
										res.OK = false
										res.Violations = append(res.Violations, fmt.Sprintf("call of %s in %s (%s)", name, funcKey(f), posStr(w, in)))
									}
								}
							}
						}
					}
				}
			}
		}
	}
	if len(fs.NoDirectRead) > 0 {
		for f := range fp.Funcs {
			for _, b := range f.Blocks {
				for _, in := range b.Instrs {
					if c, ok := in.(ssa.CallInstruction); ok && c.Common().IsInvoke() && c.Common().Method.Name() == "Read" {
						tn := typeName(c.Common().Value.Type())
						for _, banned := range fs.NoDirectRead {
							if tn == banned {
								res.OK = false
								res.Violations = append(res.Violations, fmt.Sprintf("direct %s.Read call in %s (%s)", tn, funcKey(f), posStr(w, in)))
							}
						}
					}
				}
			}
		}
	}
	if fs.HasMapRange {
		var found []string
		for f := range fp.Funcs {
			for _, b := range f.Blocks {
				for _, in := range b.Instrs {
					if r, ok := in.(*ssa.Range); ok {
						if _, isMap := r.X.Type().Underlying().(*types.Map); isMap {
							found = append(found, funcKey(f))
							if !matchFunc(funcKey(f), fs.MapRangeOnly) {
								res.OK = false
								res.Violations = append(res.Violations, fmt.Sprintf("range over a map (iteration order is a hidden input) in %s (%s), which is not in the reviewed list %v", funcKey(f), posStr(w, in), fs.MapRangeOnly))
							}
						}
					}
				}
			}
		}
		summary["functions ranging over a map"] = dedup(found)
	}
	for _, r := range fs.MapWritesOnly {
		var T types.Type
		func() {
			defer func() { recover() }()
			T = env.resolveType(r.Fields[0])
		}()
		if T == nil {
			res.OK = false
			res.Violations = append(res.Violations, "cannot resolve map type "+r.Fields[0])
			continue
		}
		var writers []string
		for _, s := range fp.Stores {
			if (s.Through == "mapupdate" || s.Through == "delete") && s.Type == typeName(T) {
				writers = append(writers, funcKey(s.Fn))
				if !matchFunc(funcKey(s.Fn), r.Funcs) {
					res.OK = false
					res.Violations = append(res.Violations, fmt.Sprintf("entry of a %s updated in %s (%s), outside the allowed writers %v", typeName(T), funcKey(s.Fn), s.Pos, r.Funcs))
				}
			}
		}
		summary["writers of maps of type "+typeName(T)] = dedup(writers)
	}
	if fs.HasGlobalReads {
		found := map[string][]string{}
		for f := range fp.Funcs {
			if f.Name() == "init" || strings.HasPrefix(f.Name(), "init#") {
				continue
			}
			for _, b := range f.Blocks {
				for _, in := range b.Instrs {
					u, ok := in.(*ssa.UnOp)
					if !ok {
						continue
					}
					g, ok := u.X.(*ssa.Global)
					if !ok || !inRepo(g.Pkg.Pkg.Path()) {
						continue
					}
					switch g.Type().(*types.Pointer).Elem().Underlying().(type) {
					case *types.Map, *types.Slice, *types.Pointer, *types.Chan:
						name := shortPkg(g.Pkg.Pkg.Path()) + "." + g.Name()
						found[name] = append(found[name], funcKey(f))
					}
				}
			}
		}
		var names []string
		for n := range found {
			names = append(names, n)
		}
		sort.Strings(names)
		summary["mutable-typed package-level variables read"] = names
		for _, n := range names {
			ok := false
			for _, a := range fs.GlobalReadsOnly {
				if a == n {
					ok = true
				}
			}
			if !ok {
				res.OK = false
				res.Violations = append(res.Violations, fmt.Sprintf("package-level variable %s (a map/slice/pointer: shared mutable state) is read in %v but is not in the reviewed list %v", n, dedup(found[n]), fs.GlobalReadsOnly))
			}
		}
	}
	if len(fs.GlobalAddrOnly) > 0 {
		for g, users := range fp.GlobalAddr {
			for _, u := range users {
				callee := u[strings.Index(u, " -> ")+4:]
				ok := false
				for _, pre := range fs.GlobalAddrOnly {
					norm := strings.NewReplacer("(", "", ")", "", "*", "").Replace(callee)
					if strings.HasPrefix(norm, pre+".") {
						ok = true
					}
				}
				if !ok {
					res.OK = false
					res.Violations = append(res.Violations, fmt.Sprintf("address of package-level variable %s passed to %s (%s)", g, callee, u))
				}
			}
		}
	}
	res.Summary = summary
	res.Assumptions = []string{
		"frame " + fs.Name + ": call graph is static calls + every in-repo implementation of an invoked interface method + every address-taken in-repo function and every method of an in-repo type converted to an interface (callbacks); dependencies are assumed not to write fields of repository structs except through those callbacks; reflection and unsafe are not tracked",
	}
	sort.Strings(res.Violations)
	return res
}

func dedup(s []string) []string {
	sort.Strings(s)
	var out []string
	for i, v := range s {
		if i == 0 || s[i-1] != v {
			out = append(out, v)
		}
	}
	return out
}

func filepathBase(p string) string {
	if i := strings.LastIndex(p, "/"); i >= 0 {
		return p[i+1:]
	}
	return p
}

// StoreSite is one write to memory found in the reach set.
type StoreSite struct {
	Fn      *ssa.Function
	Heap    string // heap name (as in the symbolic executor) or "global:<pkg>.<name>"
	Type    string // struct type name for field stores
	Field   string
	Local   bool // the written object was allocated in the same function (initialisation of a fresh object)
	Pos     string
	Through string // "store", "mapupdate", "append", "copy", "delete", "atomic"
}

type Footprint struct {
	Funcs      map[*ssa.Function]bool
	Stores     []StoreSite
	External   map[string]bool
	Dynamic    []string // dynamic calls (resolved to address-taken functions)
	GlobalAddr map[string][]string
	Reads      map[string][]string // "Type.field" -> reading functions (only for tracked fields)
}

type reachCfg struct {
	trackReads map[string]bool // "pkg.Type.field"
	stopAt     func(fn *ssa.Function) bool
}

// implementersOf lists in-repo concrete methods that an interface method invocation may reach.
func (w *World) implementersOf(it *types.Interface, method string) []*ssa.Function {
	var out []*ssa.Function
	for path, sp := range w.SSAPkg {
		if !inRepo(path) {
			continue
		}
		for _, m := range sp.Members {
			tn, ok := m.(*ssa.Type)
			if !ok {
				continue
			}
			for _, t := range []types.Type{tn.Type(), types.NewPointer(tn.Type())} {
				if _, isIface := t.Underlying().(*types.Interface); isIface {
					continue
				}
				if !types.Implements(t, it) {
					continue
				}
				ms := w.Prog.MethodSets.MethodSet(t)
				if sel := ms.Lookup(nil, method); sel != nil {
					if f := w.Prog.MethodValue(sel); f != nil {
						out = append(out, f)
					}
				} else {
					for i := 0; i < ms.Len(); i++ {
						if ms.At(i).Obj().Name() == method {
							if f := w.Prog.MethodValue(ms.At(i)); f != nil {
								out = append(out, f)
							}
						}
					}
				}
			}
		}
	}
	return out
}

var implCache = map[string][]*ssa.Function{}

func (w *World) footprint(roots []*ssa.Function, cfg *reachCfg) *Footprint {
	fp := &Footprint{Funcs: map[*ssa.Function]bool{}, External: map[string]bool{}, GlobalAddr: map[string][]string{}, Reads: map[string][]string{}}
	var work []*ssa.Function
	add := func(f *ssa.Function) {
		if f == nil || fp.Funcs[f] {
			return
		}
		if f.Blocks == nil || !(inRepo(pkgPathOf(f))) {
			fp.External[f.String()] = true
			return
		}
		if cfg != nil && cfg.stopAt != nil && cfg.stopAt(f) {
			return
		}
		fp.Funcs[f] = true
		work = append(work, f)
	}
	for _, r := range roots {
		add(r)
	}
	initsAdded := false
	for len(work) > 0 || !initsAdded {
		if len(work) == 0 {
			// functions registered in package-level tables (custom functions, format factories) are called through reflection or
			// function values: every function whose address is taken in an in-repo package initialiser is a possible callee
			initsAdded = true
			if false {
				for path, sp := range w.SSAPkg {
					if !inRepo(path) || strings.Contains(path, "/cli") || strings.Contains(path, "/samples") {
						continue
					}
					if init := sp.Func("init"); init != nil {
						for _, b := range init.Blocks {
							for _, in := range b.Instrs {
								for _, op := range in.Operands(nil) {
									if op == nil || *op == nil {
										continue
									}
									switch v := (*op).(type) {
									case *ssa.Function:
										if _, isCall := in.(ssa.CallInstruction); isCall && in.(ssa.CallInstruction).Common().Value == v {
											continue
										}
										add(v)
									case *ssa.MakeClosure:
										add(v.Fn.(*ssa.Function))
									}
								}
							}
						}
					}
				}
			}
			continue
		}
		f := work[len(work)-1]
		work = work[:len(work)-1]
		for _, b := range f.Blocks {
			for _, in := range b.Instrs {
				// address-taken functions and closures may be called by anyone
				for _, op := range in.Operands(nil) {
					if op == nil || *op == nil {
						continue
					}
					switch v := (*op).(type) {
					case *ssa.Function:
						add(v)
					case *ssa.MakeClosure:
						add(v.Fn.(*ssa.Function))
					}
				}
				switch in := in.(type) {
				case *ssa.MakeInterface:
					// methods of an in-repo type that becomes an interface value may be invoked by dependencies (callbacks)
					t := in.X.Type()
					if nt, ok := derefType(t).(*types.Named); ok && nt.Obj().Pkg() != nil && inRepo(nt.Obj().Pkg().Path()) {
						ms := w.Prog.MethodSets.MethodSet(t)
						for i := 0; i < ms.Len(); i++ {
							// only exported methods can be reached by a dependency (through an interface of its own or reflection);
							// unexported ones are reachable only via in-repo interfaces, which invoke-resolution covers
							if token.IsExported(ms.At(i).Obj().Name()) {
								add(w.Prog.MethodValue(ms.At(i)))
							}
						}
					}
				case *ssa.Store:
					fp.recordStore(w, f, in.Addr, in, "store")
				case *ssa.MapUpdate:
					fp.Stores = append(fp.Stores, StoreSite{Fn: f, Heap: "MP|" + typeID(in.Map.Type()), Type: typeName(in.Map.Type()), Pos: posStr(w, in), Through: "mapupdate", Local: allocatedHere(in.Map)})
				case *ssa.UnOp:
					if cfg != nil && cfg.trackReads != nil {
						if fa, ok := in.X.(*ssa.FieldAddr); ok {
							T := fa.X.Type().Underlying().(*types.Pointer).Elem()
							if s, ok := isStructType(T); ok {
								key := typeName(T) + "." + s.Field(fa.Field).Name()
								if cfg.trackReads[key] {
									fp.Reads[key] = append(fp.Reads[key], funcKey(f))
								}
							}
						}
					}
				case ssa.CallInstruction:
					c := in.Common()
					if c.IsInvoke() {
						it, _ := c.Value.Type().Underlying().(*types.Interface)
						key := typeName(c.Value.Type()) + "." + c.Method.Name()
						impls, ok := implCache[key]
						if !ok && it != nil {
							impls = w.implementersOf(it, c.Method.Name())
							implCache[key] = impls
						}
						for _, m := range impls {
							add(m)
						}
						continue
					}
					switch callee := c.Value.(type) {
					case *ssa.Builtin:
						switch callee.Name() {
						case "append", "copy":
							if sl, ok := c.Args[0].Type().Underlying().(*types.Slice); ok {
								fp.Stores = append(fp.Stores, StoreSite{Fn: f, Heap: "E|" + typeID(sl.Elem()), Type: typeName(sl.Elem()), Pos: posStr(w, in), Through: callee.Name(), Local: false})
							}
						case "delete":
							fp.Stores = append(fp.Stores, StoreSite{Fn: f, Heap: "MP|" + typeID(c.Args[0].Type()), Type: typeName(c.Args[0].Type()), Pos: posStr(w, in), Through: "delete"})
						}
					case *ssa.Function:
						add(callee)
						for _, a := range c.Args {
							if g, ok := a.(*ssa.Global); ok {
								gk := g.Pkg.Pkg.Path() + "." + g.Name()
								fp.GlobalAddr[gk] = append(fp.GlobalAddr[gk], funcKey(f)+" -> "+callee.String())
							}
						}
					case *ssa.MakeClosure:
						add(callee.Fn.(*ssa.Function))
					default:
						fp.Dynamic = append(fp.Dynamic, funcKey(f)+" "+posStr(w, in))
					}
				}
			}
		}
	}
	return fp
}

func posStr(w *World, in ssa.Instruction) string {
	p := w.Fset.Position(in.Pos())
	return fmt.Sprintf("%s:%d", strings.TrimPrefix(p.Filename, w.RepoDir+"/"), p.Line)
}

// allocatedHere: is the value (transitively through field/index addressing) an object created by this function?
func allocatedHere(v ssa.Value) bool {
	for i := 0; i < 20; i++ {
		switch x := v.(type) {
		case *ssa.Alloc:
			return true
		case *ssa.MakeMap, *ssa.MakeSlice:
			return true
		case *ssa.FieldAddr:
			v = x.X
		case *ssa.IndexAddr:
			v = x.X
		case *ssa.Slice:
			v = x.X
		case *ssa.UnOp:
			// load of a local variable that was assigned a fresh allocation: follow single-store locals
			if a, ok := x.X.(*ssa.Alloc); ok && !a.Heap {
				var stored ssa.Value
				n := 0
				for _, r := range *a.Referrers() {
					if s, ok := r.(*ssa.Store); ok && s.Addr == a {
						stored = s.Val
						n++
					}
				}
				if n == 1 && stored != nil {
					v = stored
					continue
				}
			}
			return false
		default:
			return false
		}
	}
	return false
}

func (fp *Footprint) recordStore(w *World, f *ssa.Function, addr ssa.Value, in ssa.Instruction, through string) {
	switch a := addr.(type) {
	case *ssa.Alloc:
		if a.Heap {
			fp.Stores = append(fp.Stores, StoreSite{Fn: f, Heap: "C|" + typeID(a.Type().(*types.Pointer).Elem()), Pos: posStr(w, in), Through: through, Local: true})
		}
	case *ssa.FieldAddr:
		T := a.X.Type().Underlying().(*types.Pointer).Elem()
		s, _ := isStructType(T)
		fp.Stores = append(fp.Stores, StoreSite{Fn: f, Heap: "H|" + typeID(T) + "|" + s.Field(a.Field).Name(), Type: typeName(T), Field: s.Field(a.Field).Name(), Pos: posStr(w, in), Through: through, Local: allocatedHere(a.X)})
	case *ssa.IndexAddr:
		var et types.Type
		switch xt := a.X.Type().Underlying().(type) {
		case *types.Slice:
			et = xt.Elem()
		case *types.Pointer:
			et = xt.Elem().Underlying().(*types.Array).Elem()
		}
		fp.Stores = append(fp.Stores, StoreSite{Fn: f, Heap: "E|" + typeID(et), Type: typeName(et), Pos: posStr(w, in), Through: through, Local: allocatedHere(a.X)})
	case *ssa.Global:
		fp.Stores = append(fp.Stores, StoreSite{Fn: f, Heap: "global:" + a.Pkg.Pkg.Path() + "." + a.Name(), Pos: posStr(w, in), Through: through})
	default:
		t := addr.Type().Underlying().(*types.Pointer).Elem()
		fp.Stores = append(fp.Stores, StoreSite{Fn: f, Heap: "C|" + typeID(t), Type: typeName(t), Pos: posStr(w, in), Through: through, Local: allocatedHere(addr)})
	}
}

// heapNamesWritten expands the store sites into executor heap names (all components), for `modifies footprint`.
func (fp *Footprint) writeSet() *writeSet {
	ws := &writeSet{heaps: map[string]Sort{}, locals: map[*ssa.Alloc]bool{}}
	ws.allocs = true
	for _, f := range sortedFuncs(fp.Funcs) {
		for _, b := range f.Blocks {
			for _, in := range b.Instrs {
				switch in := in.(type) {
				case *ssa.Store:
					switch a := in.Addr.(type) {
					case *ssa.Alloc:
						if a.Heap {
							ws.addType(a.Type().(*types.Pointer).Elem(), "cell")
						} else if _, isS := isStructType(a.Type().(*types.Pointer).Elem()); isS {
							ws.addType(a.Type().(*types.Pointer).Elem(), "cell")
						}
					case *ssa.FieldAddr:
						ws.addField(a.X.Type().Underlying().(*types.Pointer).Elem(), a.Field)
					case *ssa.IndexAddr:
						switch xt := a.X.Type().Underlying().(type) {
						case *types.Slice:
							ws.addType(xt.Elem(), "elem")
						case *types.Pointer:
							ws.addType(xt.Elem().Underlying().(*types.Array).Elem(), "elem")
						}
					default:
						ws.addType(in.Addr.Type().Underlying().(*types.Pointer).Elem(), "cell")
					}
				case *ssa.MapUpdate:
					mt := in.Map.Type()
					ws.heaps["MP|"+typeID(mt)] = arrSort(SInt, arrSort(mapKeySort(mt), SBool))
					for _, c := range comps(mt.Underlying().(*types.Map).Elem()) {
						ws.heaps["MV|"+typeID(mt)+"|"+c.Suffix] = arrSort(SInt, arrSort(mapKeySort(mt), c.Sort))
					}
				case ssa.CallInstruction:
					c := in.Common()
					if b, ok := c.Value.(*ssa.Builtin); ok && !c.IsInvoke() {
						switch b.Name() {
						case "append", "copy":
							if sl, ok := c.Args[0].Type().Underlying().(*types.Slice); ok {
								ws.addType(sl.Elem(), "elem")
							}
						case "delete":
							mt := c.Args[0].Type()
							ws.heaps["MP|"+typeID(mt)] = arrSort(SInt, arrSort(mapKeySort(mt), SBool))
						}
					}
				}
			}
		}
	}
	return ws
}

func sortedFuncs(m map[*ssa.Function]bool) []*ssa.Function {
	var out []*ssa.Function
	for f := range m {
		out = append(out, f)
	}
	sort.Slice(out, func(i, j int) bool { return funcKey(out[i]) < funcKey(out[j]) })
	return out
}

// footprintWrites (cached) is what `modifies footprint` havocs at a call of fn: every heap the in-repo reach of fn may write,
// plus every heap of a non-repository type (dependencies may write their own data).
var footprintCache = map[*ssa.Function]*writeSet{}

func (x *Exec) footprintWrites(fn *ssa.Function) *writeSet {
	if ws, ok := footprintCache[fn]; ok {
		return ws
	}
	fp := x.w.footprint([]*ssa.Function{fn}, nil)
	ws := fp.writeSet()
	footprintCache[fn] = ws
	return ws
}
