package main

import (
	"sort"
	"strings"
)

// Ground instantiation pre-pass. Quantifier instantiation inside the solvers is heuristic and occasionally derails on
// hypotheses the goal does not need. Before handing an obligation to them, gvc builds a quantifier-free version: the goal's
// universal quantifiers are skolemised, every universally quantified hypothesis is instantiated at the index/reference terms
// that occur in the goal and in the ground hypotheses (two rounds), and the quantified hypotheses themselves are dropped.
// Instances are consequences of the hypotheses, so a proof of the quantifier-free version is a proof of the obligation.

func substTerm(t *Term, m map[string]*Term) *Term {
	if t.Var {
		if r, ok := m[t.Op]; ok {
			return r
		}
		return t
	}
	if len(t.Args) == 0 && len(t.Bound) == 0 {
		return t
	}
	if len(t.Bound) > 0 {
		// do not substitute variables re-bound here
		m2 := m
		for _, b := range t.Bound {
			if _, ok := m[b.Op]; ok {
				m2 = map[string]*Term{}
				for k, v := range m {
					m2[k] = v
				}
				for _, bb := range t.Bound {
					delete(m2, bb.Op)
				}
				break
			}
		}
		nb := substTerm(t.Args[0], m2)
		if nb == t.Args[0] {
			return t
		}
		return &Term{Op: t.Op, Sort: t.Sort, Args: []*Term{nb}, Bound: t.Bound}
	}
	changed := false
	args := make([]*Term, len(t.Args))
	for i, a := range t.Args {
		args[i] = substTerm(a, m)
		if args[i] != a {
			changed = true
		}
	}
	if !changed {
		return t
	}
	n := &Term{Op: t.Op, Sort: t.Sort, Args: args, UF: t.UF, Lit: t.Lit}
	return n
}

// stripForalls turns (forall x. B), (=> A (forall x. B)) ... into (hyps, B) with x replaced by fresh constants.
func stripForalls(g *Term, fresh func(v *Term) *Term) (extraHyps []*Term, body *Term) {
	for {
		switch {
		case g.Op == "forall" && len(g.Bound) > 0:
			m := map[string]*Term{}
			for _, b := range g.Bound {
				m[b.Op] = fresh(b)
			}
			g = substTerm(g.Args[0], m)
		case g.Op == "=>" && len(g.Args) == 2 && !hasQuant(g.Args[0]):
			extraHyps = append(extraHyps, g.Args[0])
			g = g.Args[1]
		default:
			return extraHyps, g
		}
	}
}

// flattenHyp splits conjunctions and moves ground guards of quantified implications inside.
func flattenHyp(h *Term, out *[]*Term) {
	if h.Op == "and" && len(h.Bound) == 0 {
		for _, a := range h.Args {
			flattenHyp(a, out)
		}
		return
	}
	if h.Op == "=>" && len(h.Args) == 2 && !hasQuant(h.Args[0]) && h.Args[1].Op == "forall" {
		q := h.Args[1]
		*out = append(*out, &Term{Op: "forall", Sort: SBool, Bound: q.Bound, Args: []*Term{mkImplies(h.Args[0], q.Args[0])}})
		return
	}
	if h.Op == "=>" && len(h.Args) == 2 && !hasQuant(h.Args[0]) && h.Args[1].Op == "and" && hasQuant(h.Args[1]) {
		for _, a := range h.Args[1].Args {
			flattenHyp(mkImplies(h.Args[0], a), out)
		}
		return
	}
	*out = append(*out, h)
}

// candidates collects ground terms usable as instances, by sort.
func collectCandidates(ts []*Term, into map[Sort]map[string]*Term, limit int) {
	var walk func(t *Term, asIndex bool)
	walk = func(t *Term, asIndex bool) {
		if len(t.Bound) > 0 {
			return
		}
		if asIndex && !t.Lit && (t.Sort == SInt || t.Sort == SStr) && !mentionsBound(t) {
			s := t.String()
			if len(s) < 400 {
				if into[t.Sort] == nil {
					into[t.Sort] = map[string]*Term{}
				}
				if len(into[t.Sort]) < limit {
					into[t.Sort][s] = t
				}
			}
		}
		// an index written as a sum offset + k: k itself (the sum without one addend) is the instance a hypothesis quantified
		// over k needs; e-matching cannot take sums apart
		if asIndex && t.Op == "+" && len(t.Args) >= 2 && len(t.Args) <= 4 && t.Sort == SInt && !mentionsBound(t) {
			for drop := range t.Args {
				var rest []*Term
				for i, a := range t.Args {
					if i != drop {
						rest = append(rest, a)
					}
				}
				sub := rest[0]
				for _, r := range rest[1:] {
					sub = mkAdd(sub, r)
				}
				if !sub.Lit {
					k := sub.String()
					if into[SInt] == nil {
						into[SInt] = map[string]*Term{}
					}
					if len(k) < 400 && len(into[SInt]) < limit {
						into[SInt][k] = sub
					}
				}
			}
		}
		switch {
		case t.Op == "select" && len(t.Args) == 2:
			walk(t.Args[0], false)
			walk(t.Args[1], true)
		case t.Op == "store" && len(t.Args) == 3:
			walk(t.Args[0], false)
			walk(t.Args[1], true)
			walk(t.Args[2], false)
		case t.UF != nil:
			for _, a := range t.Args {
				walk(a, true)
			}
		default:
			for _, a := range t.Args {
				walk(a, false)
			}
		}
	}
	for _, t := range ts {
		walk(t, false)
	}
}

func mentionsBound(t *Term) bool {
	if t.Var && strings.Contains(t.Op, "!") && !strings.HasPrefix(t.Op, "sk!") {
		return true
	}
	for _, a := range t.Args {
		if mentionsBound(a) {
			return true
		}
	}
	return false
}

// groundVersion builds the quantifier-free version of an obligation (nil if the goal is not of a supported shape).
func groundVersion(o *Oblig, lits []*Term) *Oblig {
	nsk := 0
	fresh := func(v *Term) *Term {
		nsk++
		return mkVar("sk!"+smtIdent(v.Op)+"_"+itoa(nsk), v.Sort)
	}
	extra, goal := stripForalls(o.Goal, fresh)
	if hasQuant(goal) {
		return nil
	}
	var flat []*Term
	for _, h := range o.Hyps {
		flattenHyp(h, &flat)
	}
	for _, h := range o.Axioms {
		flattenHyp(h, &flat)
	}
	for _, h := range lits {
		if hasQuant(h) {
			flattenHyp(h, &flat)
		}
	}
	for _, h := range extra {
		flattenHyp(h, &flat)
	}
	var ground, quant []*Term
	for _, h := range flat {
		if hasQuant(h) {
			if h.Op == "forall" && !hasQuant(h.Args[0]) && len(h.Bound) <= 3 {
				quant = append(quant, h)
			}
			// other shapes (nested quantifiers, existentials) are dropped: fewer hypotheses
			continue
		}
		ground = append(ground, h)
	}
	cands := map[Sort]map[string]*Term{}
	collectCandidates([]*Term{goal}, cands, 40)
	// the goal's own terms (and those of its guards): the fallback candidate set for a hypothesis with several bound variables whose
	// full cartesian product is too large
	goalCands := map[Sort]map[string]*Term{}
	collectCandidates([]*Term{goal}, goalCands, 40)
	collectCandidates(extra, goalCands, 40)
	collectCandidates(ground, cands, 60)
	seen := map[string]bool{}
	var instances []*Term
	total := 0
	// hypotheses with fewer bound variables first: their instances are few, and the cap on the total must not be used up by the
	// cartesian products of the others before they are reached
	// ... and among those with the same number, the ones that talk about the goal's heaps and functions first
	goalSyms := map[string]bool{}
	symbolsOf(goal, goalSyms)
	rel := map[*Term]int{}
	for _, q := range quant {
		qs := map[string]bool{}
		symbolsOf(q, qs)
		for n := range qs {
			if goalSyms[n] {
				rel[q]++
			}
		}
	}
	sort.SliceStable(quant, func(i, j int) bool {
		if len(quant[i].Bound) != len(quant[j].Bound) {
			return len(quant[i].Bound) < len(quant[j].Bound)
		}
		return rel[quant[i]] > rel[quant[j]]
	})
	for round := 0; round < 2; round++ {
		var newInst []*Term
		for _, q := range quant {
			// candidate lists per bound variable
			lists := make([][]*Term, len(q.Bound))
			n := 1
			for i, b := range q.Bound {
				var keys []string
				for k := range cands[b.Sort] {
					keys = append(keys, k)
				}
				sort.Strings(keys)
				for _, k := range keys {
					lists[i] = append(lists[i], cands[b.Sort][k])
				}
				n *= len(lists[i])
			}
			if n > 2500 && len(q.Bound) > 1 {
				n = 1
				for i, b := range q.Bound {
					lists[i] = nil
					var keys []string
					for k := range goalCands[b.Sort] {
						keys = append(keys, k)
					}
					sort.Strings(keys)
					for _, k := range keys {
						lists[i] = append(lists[i], goalCands[b.Sort][k])
					}
					n *= len(lists[i])
				}
			}
			if n == 0 || n > 2500 {
				continue
			}
			idx := make([]int, len(q.Bound))
			for {
				m := map[string]*Term{}
				for i, b := range q.Bound {
					m[b.Op] = lists[i][idx[i]]
				}
				inst := substTerm(q.Args[0], m)
				key := inst.String()
				if !seen[key] && inst != tTrue {
					seen[key] = true
					newInst = append(newInst, inst)
					total++
				}
				// next tuple
				k := 0
				for k < len(idx) {
					idx[k]++
					if idx[k] < len(lists[k]) {
						break
					}
					idx[k] = 0
					k++
				}
				if k == len(idx) || total > 6000 {
					break
				}
			}
			if total > 6000 {
				break
			}
		}
		instances = append(instances, newInst...)
		if round == 0 {
			collectCandidates(newInst, cands, 90)
		}
	}
	o2 := &Oblig{Name: o.Name, Func: o.Func, Kind: o.Kind, Goal: goal, Path: o.Path, Pos: o.Pos, Desc: o.Desc + " [ground instances]"}
	o2.Hyps = append(ground, instances...)
	return o2
}

func itoa(n int) string {
	if n == 0 {
		return "0"
	}
	s := ""
	for n > 0 {
		s = string(rune('0'+n%10)) + s
		n /= 10
	}
	return s
}
