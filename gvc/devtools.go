package main

import (
	"fmt"
	"os"
	"path/filepath"
	"sort"
)

// runFunc verifies single functions and prints every obligation with its verdict (development aid).
func runFunc(repo string, keys []string) int {
	root := verifRoot()
	w, err := loadWorld(repo)
	if err != nil {
		fmt.Fprintln(os.Stderr, err)
		return 2
	}
	sp, err := loadSpecs(w, filepath.Join(root, "specs", "extern"))
	if err != nil {
		fmt.Fprintln(os.Stderr, err)
		return 2
	}
	workDir := filepath.Join(root, "work", "dev")
	os.MkdirAll(workDir, 0o755)
	rc := 0
	for _, key := range keys {
		var res *FuncResult
		if len(key) > 6 && key[:6] == "lemma." {
			for _, l := range sp.Lemmas {
				if l.Name == key[6:] {
					res = verifyLemma(w, sp, l)
				}
			}
			if res == nil {
				fmt.Println("no lemma", key)
				continue
			}
		} else {
			fn := w.findFunc(key)
			if fn == nil {
				fmt.Println("no such function", key)
				rc = 2
				continue
			}
			spec := sp.lookupFunc(fn)
			if spec == nil {
				fmt.Println("note: no contract for", key, "(safety obligations only)")
			}
			res = verifyFunc(w, sp, fn, spec, true)
		}
		if res.Err != "" {
			fmt.Println("ENGINE ERROR:", res.Err)
			rc = 2
			continue
		}
		fmt.Printf("== %s: %d obligation instances, %d paths, %d bounded cuts, tooLarge=%v unsupported=%v\n", key, len(res.Obligs), res.Paths, res.Cuts, res.TooLarge, res.Unsupported)
		var jobs []job
		for i, o := range res.Obligs {
			jobs = append(jobs, job{o, res.Lits, i})
		}
		vs := dischargeAll(jobs, workDir, 10, false, 16)
		type agg struct {
			n, ok int
			files []string
			maxs  float64
			slow  string
		}
		m := map[string]*agg{}
		for i, j := range jobs {
			a := m[j.o.Name]
			if a == nil {
				a = &agg{}
				m[j.o.Name] = a
			}
			a.n++
			if vs[i].Seconds > a.maxs {
				a.maxs = vs[i].Seconds
				a.slow = vs[i].Backend
			}
			if vs[i].Status == "discharged" || vs[i].Status == "covered" {
				a.ok++
			} else {
				a.files = append(a.files, vs[i].File+" ["+vs[i].Status+" "+fmt.Sprint(vs[i].Tried)+"] path="+j.o.Path+" "+j.o.Pos)
			}
		}
		var names []string
		for n := range m {
			names = append(names, n)
		}
		sort.Strings(names)
		for _, n := range names {
			a := m[n]
			st := "ok  "
			if a.ok != a.n {
				st = "FAIL"
				rc = 1
			}
			slow := ""
			if a.maxs > 1.5 {
				slow = fmt.Sprintf("   SLOW %.1fs %s", a.maxs, a.slow)
			}
			fmt.Printf("  %s %s (%d/%d)%s\n", st, n, a.ok, a.n, slow)
			for _, f := range a.files {
				fmt.Println("        ", f)
			}
		}
		for _, n := range res.Notes {
			fmt.Println("  note:", n)
		}
	}
	return rc
}

func runFrameCmd(repo string, names []string) int {
	root := verifRoot()
	w, err := loadWorld(repo)
	if err != nil {
		fmt.Fprintln(os.Stderr, err)
		return 2
	}
	sp, err := loadSpecs(w, filepath.Join(root, "specs", "extern"))
	if err != nil {
		fmt.Fprintln(os.Stderr, err)
		return 2
	}
	rc := 0
	for _, n := range names {
		r := runFrame(w, sp, n)
		fmt.Printf("== %s ok=%v functions=%d\n", r.Name, r.OK, r.Functions)
		for _, v := range r.Violations {
			fmt.Println("   VIOLATES:", v)
			rc = 1
		}
		if m, ok := r.Summary.(map[string]interface{}); ok {
			var keys []string
			for k := range m {
				keys = append(keys, k)
			}
			sort.Strings(keys)
			for _, k := range keys {
				fmt.Printf("   %s: %v\n", k, m[k])
			}
		}
	}
	return rc
}
