package main

import (
	"os"
	"go/constant"
	"fmt"
	"go/token"
	"go/types"
	"sort"
	"strings"

	"golang.org/x/tools/go/ssa"
)

type FuncResult struct {
	Key         string
	Obligs      []*Oblig
	Notes       []string
	TooLarge    bool
	Unsupported []string
	UsedExtern  []string
	Lits        []*Term
	Loops       int
	LoopsNoVariant []int
	RangeLoops       int
	VariantCalls     int
	LoopsWithVariant int
	Paths       int
	Cuts        int
	Err         string
}

func (x *Exec) lookupGlobal(env *Env, name string) *ssa.Global {
	sp := x.w.SSAPkg[env.pkgPath]
	if sp == nil {
		return nil
	}
	if g, ok := sp.Members[name].(*ssa.Global); ok {
		return g
	}
	return nil
}

// qualified resolves pkg.Name for constants and package-level variables.
func (x *Exec) qualified(env *Env, pkgName, name string) (Value, types.Type, bool) {
	var target *types.Package
	if pkg := env.pkg(); pkg != nil {
		for _, imp := range pkg.Imports() {
			if imp.Name() == pkgName {
				target = imp
			}
		}
	}
	if target == nil {
		for path, p := range x.w.ByPath {
			if inRepo(path) && p.Types.Name() == pkgName {
				target = p.Types
			}
		}
	}
	if target == nil {
		for _, p := range x.w.ByPath {
			if p.Types.Name() == pkgName {
				target = p.Types
				break
			}
		}
	}
	if target == nil {
		return nil, nil, false
	}
	o := target.Scope().Lookup(name)
	switch o := o.(type) {
	case *types.Const:
		return x.constOf(o), o.Type(), true
	case *types.Var:
		if sp := x.w.SSAPkg[target.Path()]; sp != nil {
			if g, ok := sp.Members[name].(*ssa.Global); ok {
				p := &PtrV{Kind: PRef, Ref: x.globalRef(g), Elem: o.Type(), Global: g}
				return x.load(env.st, env.mem, p), o.Type(), true
			}
		}
	}
	return nil, nil, false
}

// namedLocal finds the Alloc that a source-level name denotes at block b of fn.
func namedLocal(fn *ssa.Function, name string, at *ssa.BasicBlock) *ssa.Alloc {
	var best *ssa.Alloc
	consider := func(a *ssa.Alloc) {
		if a.Comment != name {
			return
		}
		if at != nil && a.Block() != nil && !a.Block().Dominates(at) {
			return
		}
		if best == nil || a.Pos() > best.Pos() || (a.Pos() == best.Pos() && true) {
			best = a
		}
	}
	for _, b := range fn.Blocks {
		for _, in := range b.Instrs {
			if a, ok := in.(*ssa.Alloc); ok {
				consider(a)
			}
		}
	}
	return best
}

// localsEnv binds every named local of frame fr (visible at block at) to its current value.
func (x *Exec) localsEnv(st *State, fr *Frame, frameIdx int, at *ssa.BasicBlock, pkgPath string) *Env {
	env := x.newEnv(st, pkgPath)
	env.frame = fr
	env.frameIx = frameIdx
	names := map[string]bool{}
	for _, b := range fr.fn.Blocks {
		for _, in := range b.Instrs {
			if a, ok := in.(*ssa.Alloc); ok && a.Comment != "" && !strings.Contains(a.Comment, "$") && a.Comment != "varargs" && a.Comment != "complit" && a.Comment != "slicelit" && a.Comment != "makeslice" {
				names[a.Comment] = true
			}
		}
	}
	// variables captured by a closure are reached through the closure's free variables
	for _, fv := range fr.fn.FreeVars {
		pv, ok := fr.vals[fv]
		if !ok {
			continue
		}
		if p, ok := pv.(*PtrV); ok {
			t := fv.Type().(*types.Pointer).Elem()
			if p.Kind == PLocal {
				if _, set := st.frames[p.Frame].locals[p.Alloc]; !set {
					continue
				}
			}
			env.bind(fv.Name(), x.load(st, st, p), t)
		}
	}
	for n := range names {
		a := namedLocal(fr.fn, n, at)
		if a == nil {
			continue
		}
		pv, ok := fr.vals[a]
		if !ok {
			continue
		}
		p := pv.(*PtrV)
		t := a.Type().(*types.Pointer).Elem()
		if _, isStruct := isStructType(t); isStruct && p.Kind == PRef {
			env.bind(n, p, types.NewPointer(t)) // struct local denoted by its location
			continue
		}
		if p.Kind == PLocal {
			if _, set := st.frames[p.Frame].locals[p.Alloc]; !set {
				continue
			}
		}
		env.bind(n, x.load(st, st, p), t)
	}
	return env
}

func (x *Exec) loopSpecFor(fn *ssa.Function, k int) (*LoopSpec, string) {
	var spec *FuncSpec
	if fn == x.fn {
		spec = x.spec
	} else {
		spec = x.contractFor(fn)
	}
	if spec == nil {
		return nil, pkgPathOf(fn)
	}
	return spec.Loops[k], spec.PkgPath
}

type loopMark struct {
	variant *Term
}

func (x *Exec) loopLabel(fr *Frame, k int) string {
	if fr.fn != x.fn {
		return fmt.Sprintf("%s/loop%d", funcKey(fr.fn), k)
	}
	return fmt.Sprintf("loop%d", k)
}

func (x *Exec) loopEntry(st *State, fr *Frame, h *ssa.BasicBlock, k int) {
	ls, pkgPath := x.loopSpecFor(fr.fn, k)
	frameIdx := len(st.frames) - 1
	if ls != nil {
		env := x.localsEnv(st, fr, frameIdx, h, pkgPath)
		x.bindEntry(env)
		for i, c := range ls.Invariants {
			label := c.Label
			if label == "" {
				label = fmt.Sprintf("%d", i+1)
			}
			g := x.evalBool(env, c.E)
			x.oblige(st, x.loopLabel(fr, k)+".entry", label, g, "loop invariant holds on entry: "+c.Src, h.Instrs[0].Pos())
		}
	}
	// havoc the loop's write set
	x.havocLoop(st, fr, frameIdx, h, ls, pkgPath)
	fr.entered[h] = true
	if ls != nil {
		env := x.localsEnv(st, fr, frameIdx, h, pkgPath)
		x.bindEntry(env)
		for _, c := range ls.Invariants {
			x.assumeIn(st, x.evalBool(env, c.E))
		}
		if ls.Decreases != nil {
			v, _ := x.eval(env, ls.Decreases)
			x.variants[variantKey(frameIdx, h)] = append(x.variants[variantKey(frameIdx, h)], variantAt{st: st, v: v.(*Term)})
			st.ghostVariant(variantKey(frameIdx, h), v.(*Term))
		}
	}
}

func variantKey(frameIdx int, h *ssa.BasicBlock) string {
	return fmt.Sprintf("%d:%s:%d", frameIdx, h.Parent().Name(), h.Index)
}

type variantAt struct {
	st *State
	v  *Term
}

func (st *State) ghostVariant(key string, v *Term) {
	if st.heap == nil {
		return
	}
	st.heap["VARIANT|"+key] = v
}

func (x *Exec) bindEntry(env *Env) {
	env.old = x.entry
	env.oldVars = map[string]Value{}
	for n, v := range x.entryVals {
		env.oldVars[n] = v
		if _, ok := env.vars[n]; !ok {
			env.bind(n, v, x.entryTypes[n])
		}
	}
	for n, t := range env.types {
		if _, ok := env.oldVars[n]; !ok {
			_ = t
		}
	}
}

func (x *Exec) loopBackEdge(st *State, fr *Frame, h *ssa.BasicBlock, k int) {
	ls, pkgPath := x.loopSpecFor(fr.fn, k)
	if ls == nil {
		return
	}
	frameIdx := len(st.frames) - 1
	env := x.localsEnv(st, fr, frameIdx, h, pkgPath)
	x.bindEntry(env)
	for i, c := range ls.Invariants {
		label := c.Label
		if label == "" {
			label = fmt.Sprintf("%d", i+1)
		}
		x.oblige(st, x.loopLabel(fr, k)+".preserved", label, x.evalBool(env, c.E), "loop invariant is preserved by the body: "+c.Src, h.Instrs[0].Pos())
	}
	if ls.Decreases != nil {
		if old, ok := st.heap["VARIANT|"+variantKey(frameIdx, h)]; ok {
			nv, _ := x.eval(env, ls.Decreases)
			x.oblige(st, x.loopLabel(fr, k)+".decreases", "", mkAnd(mkCmp("<=", mkInt(0), old), mkCmp("<", nv.(*Term), old)), "loop variant is bounded below and strictly decreases", h.Instrs[0].Pos())
		}
	}
}

// havocLoop forgets everything the loop body may write.
func (x *Exec) havocLoop(st *State, fr *Frame, frameIdx int, h *ssa.BasicBlock, ls *LoopSpec, pkgPath string) {
	li := x.loopsOf(fr.fn)
	body := li.body[h]
	ws := &writeSet{heaps: map[string]Sort{}, locals: map[*ssa.Alloc]bool{}, heapAllocs: map[*ssa.Alloc]bool{}}
	visited := map[*ssa.Function]bool{}
	for b := range body {
		x.scanWrites(b.Instrs, ws, visited, 0)
	}
	for a := range ws.locals {
		if a.Parent() != fr.fn {
			continue
		}
		if pv, ok := fr.vals[a]; ok {
			p := pv.(*PtrV)
			if p.Kind == PLocal {
				t := a.Type().(*types.Pointer).Elem()
				v := x.freshValue("loop_"+a.Comment, t)
				x.typeFacts(st, v, t)
				fr.locals[a] = v
			}
		}
	}
	if ls != nil && ls.HasMod {
		env := x.localsEnv(st, fr, frameIdx, h, pkgPath)
		x.bindEntry(env)
		x.havocLocs(st, env, ls.Modifies)
		return
	}
	for _, r := range ws.iters {
		key := iterKey(r, len(st.frames))
		if _, ok := st.heap[key]; ok {
			ks := mapKeySort(r.X.Type())
			st.heap[key] = x.fresh("loop_visited", arrSort(ks, SBool))
		}
	}
	if ws.all {
		iters := map[string]*Term{}
		for k, v := range st.heap {
			if strings.HasPrefix(k, "ITER|") || strings.HasPrefix(k, "VARIANT|") || strings.HasPrefix(k, "unroll:") {
				iters[k] = v
			}
		}
		x.havocAll(st, "loop body calls unknown code")
		for k, v := range iters {
			st.heap[k] = v
		}
		return
	}
	var names []string
	for n := range ws.heaps {
		names = append(names, n)
	}
	sort.Strings(names)
	for _, n := range names {
		if refs := ws.preciseCells[n]; len(refs) > 0 && !ws.wholeCells[n] {
			// only these package-level variables are written in the loop: every other cell of the type keeps its value
			h := st.getHeap(n, ws.heaps[n])
			for _, r := range refs {
				h = mkStore(h, r, x.fresh("loophavoc_cell", ws.preciseSort[n]))
			}
			st.heap[n] = h
			continue
		}
		st.heap[n] = x.fresh("loophavoc_"+n, ws.heaps[n])
	}
	if ws.allocs {
		ntop := x.fresh("top", SInt)
		x.assumeIn(st, mkCmp("<=", st.top, ntop))
		st.top = ntop
	}
}

type writeSet struct {
	// preciseCells: cell heaps written only at the listed references (package-level variables named by a callee's
	// `modifies cell(addrof(g))`); a heap also written in any other way appears in wholeCells and is forgotten entirely
	preciseCells map[string][]*Term
	preciseSort  map[string]Sort
	wholeCells   map[string]bool
	iters      []*ssa.Range
	heaps      map[string]Sort
	locals     map[*ssa.Alloc]bool
	heapAllocs map[*ssa.Alloc]bool
	all        bool
	allocs     bool
}

func (ws *writeSet) addType(T types.Type, kind string) {
	if s, ok := isStructType(T); ok {
		for i := 0; i < s.NumFields(); i++ {
			ws.addField(T, i)
		}
		return
	}
	for _, c := range comps(T) {
		switch kind {
		case "cell":
			ws.heaps[cellHeapName(T, c.Suffix)] = arrSort(SInt, c.Sort)
			if ws.wholeCells == nil {
				ws.wholeCells = map[string]bool{}
			}
			ws.wholeCells[cellHeapName(T, c.Suffix)] = true
		case "elem":
			ws.heaps[elemHeapName(T, c.Suffix)] = arrSort(SInt, arrSort(SInt, c.Sort))
		}
	}
}
func (ws *writeSet) addField(T types.Type, i int) {
	s, _ := isStructType(T)
	ft := s.Field(i).Type()
	if fs, ok := isStructType(ft); ok {
		for j := 0; j < fs.NumFields(); j++ {
			ws.addField(ft, j)
		}
		return
	}
	for _, c := range comps(ft) {
		ws.heaps[fieldHeapName(T, i, c.Suffix)] = arrSort(SInt, c.Sort)
	}
}

// scanWrites over-approximates what a list of instructions may write.
func (x *Exec) scanWrites(instrs []ssa.Instruction, ws *writeSet, visited map[*ssa.Function]bool, depth int) {
	for _, in := range instrs {
		switch in := in.(type) {
		case *ssa.Alloc:
			ws.allocs = true
			if in.Heap {
				ws.addType(in.Type().(*types.Pointer).Elem(), "cell")
			} else if _, isS := isStructType(in.Type().(*types.Pointer).Elem()); isS {
				ws.addType(in.Type().(*types.Pointer).Elem(), "cell")
			} else {
				ws.locals[in] = true
			}
		case *ssa.MakeSlice, *ssa.MakeMap, *ssa.MakeClosure:
			ws.allocs = true
		case *ssa.Store:
			switch a := in.Addr.(type) {
			case *ssa.Alloc:
				if a.Heap {
					ws.addType(a.Type().(*types.Pointer).Elem(), "cell")
				} else {
					ws.locals[a] = true
				}
			case *ssa.FieldAddr:
				ws.addField(a.X.Type().Underlying().(*types.Pointer).Elem(), a.Field)
			case *ssa.IndexAddr:
				switch xt := a.X.Type().Underlying().(type) {
				case *types.Slice:
					ws.addType(xt.Elem(), "elem")
				case *types.Pointer:
					ws.addType(xt.Elem().Underlying().(*types.Array).Elem(), "elem")
				}
			case *ssa.Global:
				ws.addType(a.Type().(*types.Pointer).Elem(), "cell")
			default:
				ws.addType(in.Addr.Type().Underlying().(*types.Pointer).Elem(), "cell")
			}
		case *ssa.MapUpdate:
			mt := in.Map.Type()
			ws.heaps["MP|"+typeID(mt)] = arrSort(SInt, arrSort(mapKeySort(mt), SBool))
			for _, c := range comps(mt.Underlying().(*types.Map).Elem()) {
				ws.heaps["MV|"+typeID(mt)+"|"+c.Suffix] = arrSort(SInt, arrSort(mapKeySort(mt), c.Sort))
			}
		case *ssa.Next:
			if r, ok := in.Iter.(*ssa.Range); ok && !in.IsString {
				ws.iters = append(ws.iters, r)
			}
		case *ssa.Call:
			x.scanCallWrites(in.Common(), in, ws, visited, depth)
		case *ssa.Defer:
			x.scanCallWrites(in.Common(), in, ws, visited, depth)
		case *ssa.Go:
			ws.all = true
		}
	}
}

func (x *Exec) scanCallWrites(c *ssa.CallCommon, in ssa.Instruction, ws *writeSet, visited map[*ssa.Function]bool, depth int) {
	if c.IsInvoke() {
		if c.Method.Name() == "Error" && c.Signature().Params().Len() == 0 {
			return
		}
		if k := x.sp.lookupIface(c.Value.Type(), c.Method.Name()); k != nil {
			x.scanContractWrites(k, ws, nil, nil)
			return
		}
		dbgAll(1, ws)
		return
	}
	switch callee := c.Value.(type) {
	case *ssa.Builtin:
		switch callee.Name() {
		case "append", "copy":
			ws.allocs = true
			if sl, ok := c.Args[0].Type().Underlying().(*types.Slice); ok {
				ws.addType(sl.Elem(), "elem")
			}
		case "delete":
			mt := c.Args[0].Type()
			ws.heaps["MP|"+typeID(mt)] = arrSort(SInt, arrSort(mapKeySort(mt), SBool))
		}
	case *ssa.Function:
		x.scanFuncWrites(callee, ws, visited, depth, c)
	case *ssa.MakeClosure:
		x.scanFuncWrites(callee.Fn.(*ssa.Function), ws, visited, depth, nil)
	default:
		// function value: if it is a load of a local that only ever holds closures of this function we could resolve; be conservative
		dbgAll(2, ws)
	}
}

func (x *Exec) scanFuncWrites(callee *ssa.Function, ws *writeSet, visited map[*ssa.Function]bool, depth int, call *ssa.CallCommon) {
	if k := x.contractFor(callee); k != nil && !k.Inline {
		x.scanContractWrites(k, ws, callee, call)
		return
	}
	if callee.Blocks == nil || (!inRepo(pkgPathOf(callee)) && callee.Parent() == nil) || depth > 6 {
		dbgAll(3, ws)
		return
	}
	if visited[callee] {
		return
	}
	visited[callee] = true
	for _, b := range callee.Blocks {
		x.scanWrites(b.Instrs, ws, visited, depth+1)
	}
}

// staticArgFalse: the call passes the constant false for the callee's parameter `name`.
func staticArgFalse(callee *ssa.Function, k *FuncSpec, call *ssa.CallCommon, name string) bool {
	if callee == nil || call == nil {
		return false
	}
	for i, pn := range paramNames(callee, k) {
		if pn == name && i < len(call.Args) {
			if c, ok := call.Args[i].(*ssa.Const); ok && c.Value != nil && c.Value.Kind() == constant.Bool {
				return !constant.BoolVal(c.Value)
			}
		}
	}
	return false
}

func (x *Exec) scanContractWrites(k *FuncSpec, ws *writeSet, callee *ssa.Function, call *ssa.CallCommon) {
	ws.allocs = true
	if !k.HasMod {
		dbgAll(4, ws)
		return
	}
	env := &Env{x: x, pkgPath: k.PkgPath}
	for _, l := range k.Modifies {
		if l.When != "" && staticArgFalse(callee, k, call, l.When) {
			continue
		}
		switch {
		case l.All, l.Footprint:
			dbgAll(5, ws)
		case l.Ghost != "":
			g := x.sp.Ghosts[l.Ghost]
			ws.heaps["G|"+l.Ghost] = x.ghostHeapSort(g)
		case l.Type != "":
			T := env.resolveType(l.Type)
			s, _ := isStructType(T)
			ws.addField(T, fieldIndex(s, l.Field))
		default:
			// expr.field or elems(expr): need the static type of the base; resolve conservatively through the callee signature is
			// not available here, so find every struct type in the contract's package having this field
			if l.Elems != nil {
				// elems(param): the element type of that parameter
				done := false
				if id, ok := l.Elems.(*EIdent); ok && callee != nil {
					for i, pn := range paramNames(callee, k) {
						sig := callee.Signature
						off := 0
						if sig.Recv() != nil {
							off = 1
						}
						if pn == id.Name && i-off >= 0 && i-off < sig.Params().Len() {
							if sl, ok := sig.Params().At(i - off).Type().Underlying().(*types.Slice); ok {
								ws.addType(sl.Elem(), "elem")
								done = true
							}
						}
					}
				}
				if !done {
					dbgAll(6, ws)
				}
				continue
			}
			if l.Cell != nil {
				// cell(addrof(global)): that package-level variable; cell(param) of a pointer parameter: every variable of its type
				done := false
				if c, ok := l.Cell.(*ECall); ok && c.Fn == "addrof" && len(c.TypeArgs) == 1 {
					func() {
						defer func() { recover() }()
						st0 := &State{heap: map[string]*Term{}, top: mkVar("top0", SInt)}
						v, _ := x.eval(x.newEnv(st0, k.PkgPath), l.Cell)
						if p, ok := v.(*PtrV); ok && p.Global != nil {
							et := p.Global.Type().(*types.Pointer).Elem()
							if _, isS := isStructType(et); isS {
								ws.addType(et, "cell")
							} else {
								ref := x.valRef(st0, v)
								if ws.preciseCells == nil {
									ws.preciseCells = map[string][]*Term{}
									ws.preciseSort = map[string]Sort{}
								}
								for _, c := range comps(et) {
									n := cellHeapName(et, c.Suffix)
									ws.heaps[n] = arrSort(SInt, c.Sort)
									ws.preciseCells[n] = append(ws.preciseCells[n], ref)
									ws.preciseSort[n] = c.Sort
								}
							}
							done = true
						}
					}()
				}
				if !done {
					dbgAll(8, ws)
				}
				continue
			}
			found := false
			if p := env.pkg(); p != nil {
				for _, n := range p.Scope().Names() {
					if tn, ok := p.Scope().Lookup(n).(*types.TypeName); ok {
						if s, ok := isStructType(tn.Type()); ok {
							if i := fieldIndex(s, l.Field); i >= 0 {
								ws.addField(tn.Type(), i)
								found = true
							}
						}
					}
				}
			}
			if !found {
				dbgAll(7, ws)
			}
		}
	}
}

// ---------------------------------------------------------------- function entry / return

func (x *Exec) initialState() *State {
	st := &State{heap: map[string]*Term{}}
	top0 := mkVar("top0", SInt)
	st.top = top0
	x.cur = st
	x.assumeIn(st, mkCmp(">=", top0, mkInt(0)))
	fr := &Frame{fn: x.fn, locals: map[*ssa.Alloc]Value{}, vals: map[ssa.Value]Value{}, block: x.fn.Blocks[0], entered: map[*ssa.BasicBlock]bool{}}
	st.frames = []*Frame{fr}
	st.trail = []string{"0"}
	x.entryVals = map[string]Value{}
	x.entryTypes = map[string]types.Type{}
	for i, p := range x.fn.Params {
		v := x.freshValue("p_"+p.Name(), p.Type())
		x.typeFacts(st, v, p.Type())
		fr.vals[p] = v
		name := p.Name()
		if x.spec != nil && len(x.spec.Params) > i {
			name = x.spec.Params[i].Name
		}
		x.entryVals[name] = v
		x.entryTypes[name] = p.Type()
		// nil discipline: a pointer receiver is non-nil unless declared nilable
		if i == 0 && x.fn.Signature.Recv() != nil {
			if pv, ok := v.(*PtrV); ok && (x.spec == nil || !x.spec.Nilable[name]) {
				x.assumeIn(st, mkNe(pv.Ref, mkInt(0)))
			}
		}
	}
	for _, fv := range x.fn.FreeVars {
		v := x.freshValue("fv_"+fv.Name(), fv.Type())
		fr.vals[fv] = v
	}
	return st
}

func (x *Exec) atReturn(st *State, res []Value, in *ssa.Return) {
	x.paths++
	if x.spec == nil {
		return
	}
	env := x.selfEnv(st)
	sig := x.fn.Signature
	rnames := resultNamesFor(sig, x.spec)
	for i, n := range rnames {
		if i < len(res) {
			env.bind(n, res[i], sig.Results().At(i).Type())
		}
	}
	for _, gs := range x.spec.GhostSets {
		g := x.sp.Ghosts[gs.Ghost]
		if g == nil {
			panic("ghostset: unknown ghost " + gs.Ghost)
		}
		av, _ := x.eval(env, gs.Arg)
		vv, _ := x.eval(env, gs.Val)
		name := "G|" + gs.Ghost
		h := st.getHeap(name, x.ghostHeapSort(g))
		if gs.Arg2 != nil {
			a2, _ := x.eval(env, gs.Arg2)
			k2 := x.asPlainPure(a2).(*Term)
			row := mkSelect(h, x.valRef(st, av))
			st.heap[name] = mkStore(h, x.valRef(st, av), mkStore(row, k2, x.asPlainPure(vv).(*Term)))
		} else {
			st.heap[name] = mkStore(h, x.valRef(st, av), x.asPlainPure(vv).(*Term))
		}
	}
	for i, c := range x.spec.Ensures {
		label := c.Label
		if label == "" {
			label = fmt.Sprintf("%d", i+1)
		}
		x.oblige(st, "ensures", label, x.evalBool(env, c.E), "postcondition: "+c.Src, in.Pos())
	}
	if x.spec.HasMod {
		x.frameCheck(st, env, in.Pos())
	}
	x.refinesCheck(st, res, in)
}

// refinesCheck: a method whose receiver type implements an interface that has an `iface` contract must establish that contract.
func (x *Exec) refinesCheck(st *State, res []Value, in *ssa.Return) {
	sig := x.fn.Signature
	if sig.Recv() == nil {
		return
	}
	rt := sig.Recv().Type()
	var keys []string
	for k := range x.sp.Funcs {
		if strings.HasPrefix(k, "iface:") && strings.HasSuffix(k, "."+x.fn.Name()) {
			keys = append(keys, k)
		}
	}
	sort.Strings(keys)
	for _, k := range keys {
		ik := x.sp.Funcs[k]
		env0 := x.newEnv(st, ik.PkgPath)
		itName := strings.TrimSuffix(strings.TrimPrefix(k, "iface:"), "."+x.fn.Name())
		var it types.Type
		func() {
			defer func() { recover() }()
			it = env0.resolveType(itName)
		}()
		if it == nil {
			continue
		}
		iface, ok := it.Underlying().(*types.Interface)
		if !ok || !types.Implements(rt, iface) {
			continue
		}
		env := x.newEnv(st, ik.PkgPath)
		env.old = x.entry
		// self = the receiver boxed into the interface
		recvVal := st.frames[0].vals[x.fn.Params[0]]
		env.bind("self", x.box(st, rt, recvVal), it)
		names := []string{}
		for _, p := range ik.Params {
			names = append(names, p.Name)
		}
		for i, p := range x.fn.Params[1:] {
			n := p.Name()
			if i < len(names) {
				n = names[i]
			}
			env.bind(n, st.frames[0].vals[p], p.Type())
		}
		env.oldVars = env.vars
		env2 := env.child()
		env2.oldVars = env.vars
		rnames := resultNamesFor(sig, ik)
		for i, n := range rnames {
			if i < len(res) {
				env2.bind(n, res[i], sig.Results().At(i).Type())
			}
		}
		for i, c := range ik.Ensures {
			label := c.Label
			if label == "" {
				label = fmt.Sprintf("%d", i+1)
			}
			x.oblige(st, "refines", itName+"."+x.fn.Name()+"."+label, x.evalBool(env2, c.E), "method establishes the interface contract "+itName+"."+x.fn.Name()+": "+c.Src, in.Pos())
		}
	}
}

// frameCheck: every location not listed in `modifies` (and not freshly allocated) has its entry value.
func (x *Exec) frameCheck(st *State, env *Env, pos token.Pos) {
	allowAll := false
	for _, l := range x.spec.Modifies {
		if l.All || l.Footprint {
			allowAll = true // `footprint` is established by the whole-program frame analysis, not per path
		}
	}
	if allowAll {
		return
	}
	if st.gen != x.entry.gen {
		x.oblige(st, "frame", "", tFalse, "an uncontracted call may write anything, but the function declares a modifies clause", pos)
		return
	}
	// allowed references per heap name
	allowedRefs := map[string][]*Term{}
	allowedWhole := map[string]bool{}
	old := env.atOld()
	for _, l := range x.spec.Modifies {
		switch {
		case l.Cell != nil:
			v, t := x.eval(old, l.Cell)
			et := derefType(t)
			for _, c := range comps(et) {
				n := cellHeapName(et, c.Suffix)
				allowedRefs[n] = append(allowedRefs[n], x.valRef(st, v))
			}
		case l.Ghost != "":
			allowedWhole["G|"+l.Ghost] = true
		case l.Type != "":
			T := env.resolveType(l.Type)
			s, _ := isStructType(T)
			ws := &writeSet{heaps: map[string]Sort{}}
			ws.addField(T, fieldIndex(s, l.Field))
			for n := range ws.heaps {
				allowedWhole[n] = true
			}
		case l.Elems != nil:
			v, t := x.eval(old, l.Elems)
			s := v.(*SliceV)
			et := t.Underlying().(*types.Slice).Elem()
			ws := &writeSet{heaps: map[string]Sort{}}
			ws.addType(et, "elem")
			for n := range ws.heaps {
				if strings.HasPrefix(n, "E|") {
					allowedRefs[n] = append(allowedRefs[n], s.Arr)
				} else {
					allowedWhole[n] = true // struct elements: per-field heaps keyed by elem refs (coarse)
				}
			}
		default:
			bv, bt := x.eval(old, l.Base)
			T := derefType(bt)
			s, _ := isStructType(T)
			idx := fieldIndex(s, l.Field)
			if idx < 0 {
				panic("modifies: no field " + l.Field + " in " + typeName(T))
			}
			ws := &writeSet{heaps: map[string]Sort{}}
			ws.addField(T, idx)
			ref := x.valRef(st, bv)
			ft := s.Field(idx).Type()
			if _, nested := isStructType(ft); nested {
				ref = x.fldRef(st, T, idx, ref)
			}
			for n := range ws.heaps {
				allowedRefs[n] = append(allowedRefs[n], ref)
			}
		}
	}
	var names []string
	for n := range st.heap {
		names = append(names, n)
	}
	sort.Strings(names)
	top0 := x.entry.top
	for _, n := range names {
		if strings.HasPrefix(n, "VARIANT|") || strings.HasPrefix(n, "unroll:") || strings.HasPrefix(n, "ITER|") || strings.HasPrefix(n, "callcount:") || allowedWhole[n] {
			continue
		}
		cur := st.heap[n]
		was := x.entry.getHeap(n, cur.Sort)
		if cur.String() == was.String() {
			continue
		}
		r := x.fresh("frame_r", SInt)
		var allowed []*Term
		allowed = append(allowed, mkCmp(">", r, top0)) // fresh objects
		for _, a := range allowedRefs[n] {
			allowed = append(allowed, mkEq(r, a))
		}
		goal := mkOr(append(allowed, mkEq(mkSelect(cur, r), mkSelect(was, r)))...)
		x.oblige(st, "frame", frameLabel(n), goal, "only locations in the modifies clause change: "+n, pos)
	}
}

func frameLabel(heapName string) string {
	parts := strings.Split(heapName, "|")
	if len(parts) >= 3 {
		return parts[1] + "." + strings.Join(parts[2:], ".")
	}
	return strings.Join(parts[1:], ".")
}

func verifyFunc(w *World, sp *Specs, fn *ssa.Function, spec *FuncSpec, safety bool) (res *FuncResult) {
	x := newExec(w, sp, fn, spec)
	x.safety = safety && (spec == nil || !spec.NoSafety)
	x.variants = map[string][]variantAt{}
	x.recSpecUsed = map[string]bool{}
	res = &FuncResult{Key: x.key}
	defer func() {
		if r := recover(); r != nil {
			res.Err = fmt.Sprint(r)
			res.Obligs = nil
		}
	}()
	st := x.initialState()
	if spec != nil {
		for _, pk := range spec.InitPkgs {
			x.runInit(st, pk)
		}
	}
	if spec != nil {
		env := x.selfEnv(st)
		for _, c := range spec.Requires {
			x.assumeIn(st, x.evalBool(env, c.E))
		}
		if spec.BoundK > 0 {
			for _, c := range spec.BoundAssume {
				x.assumeIn(st, x.evalBool(env, c.E))
			}
		}
		for _, c := range spec.Assumes {
			x.assumeIn(st, x.evalBool(env, c.E))
			x.note("assumed at the entry of %s, not checked at its call sites: %s", x.key, c.Src)
		}
		// recursion variant: the measure at entry, each component bounded below under the precondition
		for i, c := range spec.Measure {
			v, _ := x.eval(env, c.E)
			m, ok := v.(*Term)
			if !ok {
				panic("contract: decreases component is not an integer: " + c.Src)
			}
			x.entryMeasure = append(x.entryMeasure, m)
			x.oblige(st, "variant", fmt.Sprintf("bounded.%d", i+1), mkCmp("<=", mkInt(0), m), "recursion variant component is bounded below at entry: "+c.Src, fn.Pos())
		}
	}
	x.entry = st.snap()
	// vacuity probe: the precondition must be satisfiable
	probe := &Oblig{Name: x.key + "#cover:entry", Func: x.key, Kind: "cover", Hyps: append([]*Term(nil), st.pc...), Goal: tFalse, Cover: true, Desc: "the precondition is satisfiable (vacuity probe; must not be unsat)"}
	x.run(st)
	// a caller-side assertion that was never generated (its call no longer occurs, or nowhere with the named locals in scope)
	// must not disappear silently
	if spec != nil {
		for _, c := range spec.UpdAsserts {
			if !x.atcallApplied["upd:"+c.Label] {
				x.obligs = append(x.obligs, &Oblig{Name: x.key + "#atcall:" + c.Label, Func: x.key, Kind: "atcall", Hyps: nil, Goal: tFalse,
					Desc: "no map update at which this assertion applies occurs on any explored path: " + c.Src})
			}
		}
		for _, ca := range spec.CallAsserts {
			if ca.C.Label != "" && !x.atcallApplied[ca.C.Label] {
				x.obligs = append(x.obligs, &Oblig{Name: x.key + "#atcall:" + ca.C.Label, Func: x.key, Kind: "atcall", Hyps: nil, Goal: tFalse,
					Desc: "the call this assertion is about (" + ca.Callee + ") occurs on no explored path: " + ca.C.Src})
			}
		}
	}
	res.Obligs = append(x.obligs, probe)
	for n := range x.notes {
		res.Notes = append(res.Notes, n)
	}
	sort.Strings(res.Notes)
	res.TooLarge = x.tooLarge
	res.Unsupported = x.unsupported
	for e := range x.usedExtern {
		res.UsedExtern = append(res.UsedExtern, e)
	}
	sort.Strings(res.UsedExtern)
	res.Lits = x.literalAxioms()
	attachAxioms(res.Obligs, x.specAxioms())
	li := x.loopsOf(fn)
	res.Loops = len(li.headers)
	for _, h := range li.headers {
		k := li.ordinal[h]
		if h.Comment == "rangeindex.loop" || h.Comment == "rangeiter.loop" {
			res.RangeLoops++ // a range over a slice, array, string or map: terminates by construction (the length is read once)
			continue
		}
		if spec == nil || spec.Loops[k] == nil || spec.Loops[k].Decreases == nil {
			res.LoopsNoVariant = append(res.LoopsNoVariant, k)
		} else {
			res.LoopsWithVariant++
		}
	}
	res.Paths = x.paths
	res.Cuts = x.cuts
	res.VariantCalls = x.variantCalls
	return res
}

// specAxioms: user axioms and unfolding axioms of recursive spec functions used by this function's obligations.
func (x *Exec) specAxioms() []*Term {
	var out []*Term
	st := &State{heap: map[string]*Term{}, top: mkVar("top0", SInt)}
	for _, a := range x.sp.Axioms {
		env := x.newEnv(st, a.PkgPath)
		var bound []*Term
		var guards []*Term
		for _, p := range a.Params {
			t := env.resolveType(p.Type)
			bv := mkVar(p.Name+"!a", scalarSort(t))
			bound = append(bound, bv)
			var val Value = bv
			if pt, ok := t.Underlying().(*types.Pointer); ok {
				val = &PtrV{Kind: PRef, Ref: bv, Elem: pt.Elem()}
			}
			env.bind(p.Name, val, t)
		}
		body := x.evalBool(env, a.Body)
		out = append(out, mkForall(bound, mkImplies(mkAnd(guards...), body)))
	}
	out = append(out, x.recSpecAxioms()...)
	out = append(out, x.derivedRefAxioms()...)
	return out
}

// derivedRefAxioms: derived locations (elements of struct slices, fields of struct type) are injective in their arguments and
// lie below every allocated object. Attached (by symbol) to the obligations that mention them.
func (x *Exec) derivedRefAxioms() []*Term {
	var names []string
	for n := range x.derivedUFs {
		names = append(names, n)
	}
	sort.Strings(names)
	var out []*Term
	for _, n := range names {
		if x.derivedUFs[n] == 2 {
			a, i := mkVar("a!d", SInt), mkVar("i!d", SInt)
			e := ufApp(&UF{n, []Sort{SInt, SInt}, SInt}, a, i)
			body := mkAnd(mkEq(ufApp(&UF{n + "_arr", []Sort{SInt}, SInt}, e), a), mkEq(ufApp(&UF{n + "_idx", []Sort{SInt}, SInt}, e), i), mkCmp("<=", e, mkInt(-1000000)))
			out = append(out, mkForall([]*Term{a, i}, body, e))
		} else {
			b := mkVar("b!d", SInt)
			e := ufApp(&UF{n, []Sort{SInt}, SInt}, b)
			body := mkAnd(mkEq(ufApp(&UF{n + "_inv", []Sort{SInt}, SInt}, e), b), mkImplies(mkNe(b, mkInt(0)), mkCmp("<=", e, mkInt(-1000000))))
			out = append(out, mkForall([]*Term{b}, body, e))
		}
	}
	return out
}

// verifyLemma: a lemma is an obligation over contracts/spec functions only.
func verifyLemma(w *World, sp *Specs, l *LemmaSpec) *FuncResult {
	res := &FuncResult{Key: "lemma." + l.Name}
	defer func() {
		if r := recover(); r != nil {
			res.Err = fmt.Sprint(r)
			res.Obligs = nil
		}
	}()
	x := newExec(w, sp, nil, nil)
	x.key = "lemma." + l.Name
	x.recSpecUsed = map[string]bool{}
	x.variants = map[string][]variantAt{}
	st := &State{heap: map[string]*Term{}}
	st.top = mkVar("top0", SInt)
	x.cur = st
	env := x.newEnv(st, l.PkgPath)
	for _, p := range l.Params {
		t := env.resolveType(p.Type)
		v := x.freshValue("l_"+p.Name, t)
		env.bind(p.Name, v, t)
	}
	for _, c := range l.Requires {
		x.assumeIn(st, x.evalBool(env, c.E))
	}
	for i, c := range l.Ensures {
		label := c.Label
		if label == "" {
			label = fmt.Sprintf("%d", i+1)
		}
		x.oblige(st, "lemma", label, x.evalBool(env, c.E), "lemma "+l.Name+": "+c.Src, token.NoPos)
	}
	probe := &Oblig{Name: x.key + "#cover:entry", Func: x.key, Kind: "cover", Hyps: append([]*Term(nil), st.pc...), Goal: tFalse, Cover: true, Desc: "lemma hypotheses are satisfiable"}
	res.Obligs = append(x.obligs, probe)
	res.Lits = x.literalAxioms()
	attachAxioms(res.Obligs, x.specAxioms())
	return res
}

// attachAxioms gives each obligation the user axioms that share a symbol with it (keeps unrelated queries quantifier free).
func attachAxioms(obs []*Oblig, axioms []*Term) {
	if len(axioms) == 0 {
		return
	}
	axSyms := make([]map[string]bool, len(axioms))
	for i, a := range axioms {
		axSyms[i] = map[string]bool{}
		symbolsOf(a, axSyms[i])
	}
	for _, o := range obs {
		syms := map[string]bool{}
		for _, h := range o.Hyps {
			symbolsOf(h, syms)
		}
		symbolsOf(o.Goal, syms)
		for i, a := range axioms {
			for k := range axSyms[i] {
				if syms[k] {
					o.Axioms = append(o.Axioms, a)
					break
				}
			}
		}
	}
}

func symbolsOf(t *Term, out map[string]bool) {
	if t.UF != nil {
		out[t.UF.Name] = true
	}
	if t.Var && !strings.Contains(t.Op, "!") {
		out[t.Op] = true
	}
	for _, a := range t.Args {
		symbolsOf(a, out)
	}
}

// runInit executes a package initialiser symbolically on st (initialisers of imported packages are skipped): the function is then
// verified in the state "this package has been initialised". That the initialised tables are not modified later is a separate
// frame obligation.
func (x *Exec) runInit(st *State, pkgRef string) {
	var sp *ssa.Package
	for path, p := range x.w.SSAPkg {
		if path == pkgRef || shortPkg(path) == pkgRef {
			sp = p
		}
	}
	if sp == nil {
		panic("initstate: no package " + pkgRef)
	}
	init := sp.Func("init")
	if init == nil || init.Blocks == nil {
		return
	}
	x.inInit = true
	x.initRan[sp.Pkg.Path()] = true
	x.pushFrame(st, &FuncV{Fn: init}, nil, nil)
	for len(st.frames) > 1 && !st.dead {
		forks, _ := x.step(st)
		if len(forks) > 0 {
			panic("initstate: package initialiser of " + pkgRef + " branches on symbolic data")
		}
		x.budget--
		if x.budget < 0 {
			panic("initstate: initialiser too large")
		}
	}
	x.inInit = false
	x.note("assumption: package %s is initialised and the tables its initialiser builds are not modified afterwards (see the frame obligation next to the contract)", shortPkg(sp.Pkg.Path()))
}

func dbgAll(site int, ws *writeSet) {
	ws.all = true
	if os.Getenv("GVC_DEBUG_GEN") != "" {
		fmt.Fprintf(os.Stderr, "WS.ALL at site %d\n", site)
	}
}
