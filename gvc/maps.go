package main

import (
	"fmt"
	"go/types"
	"strings"

	"golang.org/x/tools/go/ssa"
)

// Maps: a map value is a reference; contents live in per-map-type heaps
//   MP|T : Ref -> (K -> Bool)   presence
//   MV|T|comp : Ref -> (K -> V) values
// len is an uninterpreted function of the presence set.

func mapKeySort(t types.Type) Sort { return scalarSort(t.Underlying().(*types.Map).Key()) }

func (x *Exec) mapPresence(m memView, t types.Type) (string, *Term) {
	name := "MP|" + typeID(t)
	return name, m.getHeap(name, arrSort(SInt, arrSort(mapKeySort(t), SBool)))
}

func (x *Exec) newMap(st *State, t types.Type) Value {
	ref := x.newRef(st)
	ks := mapKeySort(t)
	name, h := x.mapPresence(st, t)
	empty := app("(as const "+string(arrSort(ks, SBool))+")", arrSort(ks, SBool), tFalse)
	st.heap[name] = mkStore(h, ref, empty)
	return ref
}

func (x *Exec) mapLen(st *State, m memView, ref *Term) *Term {
	// the map type is not known here; len is modelled as an uninterpreted non-negative function of (ref, generation)
	r := x.fresh("maplen", SInt)
	x.assumeIn(st, mkCmp(">=", r, mkInt(0)))
	return r
}

func (x *Exec) keyTerm(st *State, t types.Type, k Value) *Term {
	kt := t.Underlying().(*types.Map).Key()
	v := x.asPlain(st, k, kt)
	return v.(*Term)
}

func (x *Exec) doLookup(st *State, in *ssa.Lookup) Value {
	xt := in.X.Type().Underlying()
	mt, ok := xt.(*types.Map)
	if !ok { // string index with comma-ok does not exist; this is s[i] on string handled by Index; Lookup on string is byte
		s := x.val(st, in.X).(*Term)
		idx := x.val(st, in.Index).(*Term)
		r := ufApp(ufSByte, s, idx)
		return r
	}
	ref := x.val(st, in.X).(*Term)
	k := x.keyTerm(st, in.X.Type(), x.val(st, in.Index))
	_, ph := x.mapPresence(st, in.X.Type())
	present := mkAnd(mkNe(ref, mkInt(0)), mkSelect(mkSelect(ph, ref), k))
	vt := mt.Elem()
	var ts []*Term
	zero := flatten(x.asPlain(st, x.zeroValue(vt), vt))
	for i, c := range comps(vt) {
		name := "MV|" + typeID(in.X.Type()) + "|" + c.Suffix
		h := st.getHeap(name, arrSort(SInt, arrSort(mapKeySort(in.X.Type()), c.Sort)))
		ts = append(ts, mkIte(present, mkSelect(mkSelect(h, ref), k), zero[i]))
	}
	v, _ := x.rebuild(vt, ts)
	x.typeFacts(st, v, vt)
	if in.CommaOk {
		return TupleV{v, present}
	}
	return v
}

func (x *Exec) doMapUpdate(st *State, in *ssa.MapUpdate) {
	mt := in.Map.Type().Underlying().(*types.Map)
	ref := x.val(st, in.Map).(*Term)
	if x.safety {
		x.oblige(st, "nonnil", "mapupdate"+x.instrLabel(in, "mapupdate"), mkNe(ref, mkInt(0)), "assignment to entry in nil map", in.Pos())
	}
	x.assume(mkNe(ref, mkInt(0)))
	x.updateAsserts(st, in)
	k := x.keyTerm(st, in.Map.Type(), x.val(st, in.Key))
	pname, ph := x.mapPresence(st, in.Map.Type())
	st.heap[pname] = mkStore(ph, ref, mkStore(mkSelect(ph, ref), k, tTrue))
	vt := mt.Elem()
	vals := flatten(x.asPlain(st, x.val(st, in.Value), vt))
	for i, c := range comps(vt) {
		name := "MV|" + typeID(in.Map.Type()) + "|" + c.Suffix
		h := st.getHeap(name, arrSort(SInt, arrSort(mapKeySort(in.Map.Type()), c.Sort)))
		st.heap[name] = mkStore(h, ref, mkStore(mkSelect(h, ref), k, vals[i]))
	}
}

func (x *Exec) mapDelete(st *State, t types.Type, ref *Term, key Value) {
	k := x.keyTerm(st, t, key)
	pname, ph := x.mapPresence(st, t)
	st.heap[pname] = mkStore(ph, ref, mkStore(mkSelect(ph, ref), k, tFalse))
}

// rangeIter is the value of an ssa.Range.
type rangeIter struct {
	over ssa.Value
	val  Value
	key  string // state key of the visited set (maps only)
}

func iterKey(in *ssa.Range, depth int) string {
	return fmt.Sprintf("ITER|%s|%d|%d", smtIdent(funcKey(in.Parent())), in.Block().Index, depth)
}

func (x *Exec) doRange(st *State, in *ssa.Range) Value {
	it := &rangeIter{over: in.X, val: x.val(st, in.X)}
	if _, isMap := in.X.Type().Underlying().(*types.Map); isMap {
		it.key = iterKey(in, len(st.frames))
		ks := mapKeySort(in.X.Type())
		st.heap[it.key] = app("(as const "+string(arrSort(ks, SBool))+")", arrSort(ks, SBool), tFalse)
	}
	return it
}

// doNext: one step of a map or string iteration: (ok, key, value) with ok unconstrained.
func (x *Exec) doNext(st *State, in *ssa.Next) Value {
	it := x.val(st, in.Iter).(*rangeIter)
	ok := x.fresh("range_ok", SBool)
	tup := in.Type().(*types.Tuple)
	if in.IsString {
		idx := x.fresh("range_idx", SInt)
		s := it.val.(*Term)
		x.assume(mkImplies(ok, mkAnd(mkCmp("<=", mkInt(0), idx), mkCmp("<", idx, ufApp(ufSlen, s)))))
		r := x.fresh("range_rune", SInt)
		x.assume(mkAnd(mkCmp("<=", mkInt(0), r), mkCmp("<=", r, mkInt(1114111))))
		return TupleV{ok, idx, r}
	}
	mtype := it.over.Type()
	mt := mtype.Underlying().(*types.Map)
	ref := it.val.(*Term)
	var kv Value = x.freshValue("range_key", mt.Key())
	if tup.At(1).Type() == types.Typ[types.Invalid] {
		kv = nil
	}
	var vv Value
	if kv == nil {
		kv = x.freshValue("range_key", mt.Key())
	}
	if kv != nil {
		k := x.keyTerm(st, mtype, kv)
		_, ph := x.mapPresence(st, mtype)
		x.assume(mkImplies(ok, mkAnd(mkNe(ref, mkInt(0)), mkSelect(mkSelect(ph, ref), k))))
		if it.key != "" {
			// each key is produced exactly once; when the iteration ends every present key has been produced
			vis := st.heap[it.key]
			x.assume(mkImplies(ok, mkNot(mkSelect(vis, k))))
			q := mkVar("k!it", mapKeySort(mtype))
			x.assume(mkImplies(mkNot(ok), mkForall([]*Term{q}, mkImplies(mkAnd(mkNe(ref, mkInt(0)), mkSelect(mkSelect(ph, ref), q)), mkSelect(vis, q)))))
			st.heap[it.key] = mkIte(ok, mkStore(vis, k, tTrue), vis)
		}
		if tup.At(2).Type() != types.Typ[types.Invalid] {
			var ts []*Term
			for _, c := range comps(mt.Elem()) {
				name := "MV|" + typeID(mtype) + "|" + c.Suffix
				h := st.getHeap(name, arrSort(SInt, arrSort(mapKeySort(mtype), c.Sort)))
				ts = append(ts, mkSelect(mkSelect(h, ref), k))
			}
			vv, _ = x.rebuild(mt.Elem(), ts)
			x.typeFacts(st, vv, mt.Elem())
		}
	}
	return TupleV{ok, kv, vv}
}

// updateAsserts: `atupdate label: expr` clauses of the function under verification are asserted at every map update executed in
// that function itself or in a function literal defined inside it (closures are inlined, so the update runs in the closure's
// frame and expr is evaluated over that frame's named locals and captured variables). An assertion naming a local that is not in
// scope at the update does not apply there (noted); a label that applies nowhere is a failed obligation (see verifyFunc).
func (x *Exec) updateAsserts(st *State, in *ssa.MapUpdate) {
	if x.spec == nil || len(x.spec.UpdAsserts) == 0 {
		return
	}
	fr := st.frame()
	inside := false
	for f := fr.fn; f != nil; f = f.Parent() {
		if f == x.fn {
			inside = true
		}
	}
	if !inside {
		return
	}
	for _, c := range x.spec.UpdAsserts {
		env := x.localsEnv(st, fr, len(st.frames)-1, in.Block(), pkgPathOf(x.fn))
		if len(st.frames) == 1 {
			x.bindEntry(env)
		}
		var g *Term
		func() {
			defer func() {
				if r := recover(); r != nil {
					if msg, ok := r.(string); ok && strings.HasPrefix(msg, "contract: unknown name") {
						x.note("atupdate %s does not apply at %s (%s)", c.Label, x.w.Fset.Position(in.Pos()), msg)
						g = nil
						return
					}
					panic(r)
				}
			}()
			g = x.evalBool(env, c.E)
		}()
		if g == nil {
			continue
		}
		if x.atcallApplied == nil {
			x.atcallApplied = map[string]bool{}
		}
		x.atcallApplied["upd:"+c.Label] = true
		x.oblige(st, "atcall", c.Label, g, "at the map update: "+c.Src, in.Pos())
		x.assumeIn(st, g)
	}
}
