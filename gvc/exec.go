package main

import (
	"fmt"
	"go/constant"
	"go/token"
	"go/types"
	"sort"
	"strings"

	"golang.org/x/tools/go/ssa"
)

// Oblig is one proof obligation instance (one path's instance of a named obligation).
type Oblig struct {
	Name   string // <func>#<kind>:<label>
	Func   string
	Kind   string
	Hyps   []*Term
	Goal   *Term
	Path   string
	Pos    string
	Desc   string
	Cover  bool // a reachability probe: expected to be satisfiable (must NOT be unsat)
	ExpectFail bool // listed as an open known finding: short solver pipeline
	PreN   int  // for a probe placed after a call: the number of leading hypotheses that were there before the callee's postconditions
	Axioms []*Term
}

// Exec verifies one function.
type Exec struct {
	w         *World
	sp        *Specs
	fn        *ssa.Function
	key       string
	spec      *FuncSpec
	nfresh    int
	afterCovers map[string]int
	izGhosts    []string
	atcallApplied map[string]bool
	genCtr    int
	obligs    []*Oblig
	notes     map[string]bool
	strlits   map[string]*Term
	fltlits   map[string]*Term
	factDone  map[string]bool
	globalIDs map[string]int64
	budget    int
	cur       *State
	entry     *HeapSnap
	variantCalls int
	entryMeasure []*Term // recursion variant of the function under verification, evaluated at entry
	entryVals map[string]Value // parameter name -> entry value
	entryTypes map[string]types.Type
	labels    map[ssa.Instruction]string
	loops     map[*ssa.Function]*loopInfo
	safety    bool
	tooLarge  bool
	unsupported []string
	usedExtern map[string]bool
	axioms    []*Term
	tids      map[string]int64
	inlineDepthMax int
	resultNames []string
	calls map[string]int
	variants map[string][]variantAt
	recSpecUsed map[string]bool
	paths int
	curCallee *ssa.Function
	curIface types.Type
	curMethod string
	cuts int
	inInit bool
	initRan map[string]bool
	knownFuncs map[string]*FuncV
	derivedUFs map[string]int
}

func newExec(w *World, sp *Specs, fn *ssa.Function, spec *FuncSpec) *Exec {
	return &Exec{w: w, sp: sp, fn: fn, key: funcKey(fn), spec: spec, notes: map[string]bool{}, strlits: map[string]*Term{}, fltlits: map[string]*Term{},
		factDone: map[string]bool{}, budget: 6000, labels: map[ssa.Instruction]string{}, loops: map[*ssa.Function]*loopInfo{}, safety: true,
		usedExtern: map[string]bool{}, tids: map[string]int64{}, inlineDepthMax: 4, calls: map[string]int{}, initRan: map[string]bool{}, knownFuncs: map[string]*FuncV{}, derivedUFs: map[string]int{}}
}

func (x *Exec) note(format string, a ...interface{}) { x.notes[fmt.Sprintf(format, a...)] = true }

func (x *Exec) fresh(hint string, s Sort) *Term {
	x.nfresh++
	return mkVar(fmt.Sprintf("v%d_%s", x.nfresh, smtIdent(hint)), s)
}

func (x *Exec) assume(t *Term)               { x.assumeIn(x.cur, t) }
func (x *Exec) assumeIn(st *State, t *Term) {
	if t == tTrue || st == nil {
		return
	}
	if t == tFalse {
		st.dead = true
	}
	// a conjunction is kept as separate hypotheses (quantified conjuncts become top-level, which instantiation and the
	// hypothesis-subset retry work on)
	if t.Op == "and" && len(t.Bound) == 0 && len(t.Args) > 1 {
		for _, a := range t.Args {
			x.assumeIn(st, a)
		}
		return
	}
	st.pc = append(st.pc, t)
}

func (x *Exec) strLit(s string) *Term {
	if t, ok := x.strlits[s]; ok {
		return t
	}
	t := mkVar(fmt.Sprintf("strlit_%d", len(x.strlits)), SStr)
	x.strlits[s] = t
	return t
}
func (x *Exec) fltLit(s string) *Term {
	if t, ok := x.fltlits[s]; ok {
		return t
	}
	t := mkVar(fmt.Sprintf("fltlit_%d", len(x.fltlits)), SFlt)
	x.fltlits[s] = t
	return t
}

var ufSlen = &UF{"slen", []Sort{SStr}, SInt}
var ufConcat = &UF{"sconcat", []Sort{SStr, SStr}, SStr}
var ufTypeOf = &UF{"typeof", []Sort{SInt}, SInt}

// literalAxioms: distinctness and lengths of the string literals used.
func (x *Exec) literalAxioms() []*Term {
	var out []*Term
	var keys []string
	for k := range x.strlits {
		keys = append(keys, k)
	}
	sort.Strings(keys)
	var ts []*Term
	for _, k := range keys {
		t := x.strlits[k]
		ts = append(ts, t)
		out = append(out, mkEq(ufApp(ufSlen, t), mkInt(int64(len(k)))))
	}
	if len(ts) > 1 {
		out = append(out, app("distinct", SBool, ts...))
	}
	// function constants are distinct non-nil values
	var fnames []string
	for n := range x.knownFuncs {
		fnames = append(fnames, n)
	}
	sort.Strings(fnames)
	var fts []*Term
	for _, n := range fnames {
		ft := mkVar(n, SInt)
		fts = append(fts, ft)
		out = append(out, mkCmp(">", ft, mkInt(0)))
	}
	if len(fts) > 1 {
		out = append(out, app("distinct", SBool, fts...))
	}
	keys = keys[:0]
	for k := range x.fltlits {
		keys = append(keys, k)
	}
	sort.Strings(keys)
	ts = nil
	for _, k := range keys {
		ts = append(ts, x.fltlits[k])
	}
	if len(ts) > 1 {
		out = append(out, app("distinct", SBool, ts...))
	}
	return out
}

// tid gives each concrete dynamic type a distinct positive integer.
func (x *Exec) tid(t types.Type) *Term {
	s := typeName(t)
	if id, ok := x.tids[s]; ok {
		return mkInt(id)
	}
	// stable: hash of the name, so that it does not depend on encounter order
	var h uint32 = 2166136261
	for i := 0; i < len(s); i++ {
		h = (h ^ uint32(s[i])) * 16777619
	}
	id := int64(h%1000000007) + 1
	for _, v := range x.tids {
		if v == id {
			id++
		}
	}
	x.tids[s] = id
	return mkInt(id)
}

// box makes an interface value from a concrete value.
func (x *Exec) box(st *State, t types.Type, v Value) *Term {
	if _, isIface := t.Underlying().(*types.Interface); isIface {
		return v.(*Term)
	}
	v = x.asPlain(st, v, t)
	fl := flatten(v)
	var sorts []Sort
	for _, f := range fl {
		sorts = append(sorts, f.Sort)
	}
	name := "box_" + typeID(t)
	b := ufApp(&UF{name, sorts, SInt}, fl...)
	x.assumeIn(st, mkCmp(">", b, mkInt(0)))
	x.assumeIn(st, mkEq(ufApp(ufTypeOf, b), x.tid(t)))
	for i, f := range fl {
		x.assumeIn(st, mkEq(ufApp(&UF{fmt.Sprintf("unbox_%s_%d", typeID(t), i), []Sort{SInt}, f.Sort}, b), f))
	}
	return b
}

func (x *Exec) unbox(st *State, t types.Type, b *Term) Value {
	cs := comps(t)
	var ts []*Term
	for i, c := range cs {
		ts = append(ts, ufApp(&UF{fmt.Sprintf("unbox_%s_%d", typeID(t), i), []Sort{SInt}, c.Sort}, b))
	}
	v, _ := x.rebuild(t, ts)
	x.typeFactsNoTop(st, v, t)
	return v
}

// implements: uninterpreted predicate on type ids for assertions to interface types, decided statically for known ids.
func (x *Exec) typeIs(st *State, b *Term, t types.Type) *Term {
	if it, ok := t.Underlying().(*types.Interface); ok {
		if it.NumMethods() == 0 {
			return mkNe(b, mkInt(0))
		}
		return mkAnd(mkNe(b, mkInt(0)), ufApp(&UF{"impl_" + typeID(t), []Sort{SInt}, SBool}, ufApp(ufTypeOf, b)))
	}
	return mkAnd(mkNe(b, mkInt(0)), mkEq(ufApp(ufTypeOf, b), x.tid(t)))
}

// ---------------------------------------------------------------- values of SSA operands

func (x *Exec) val(st *State, v ssa.Value) Value {
	switch v := v.(type) {
	case *ssa.Const:
		return x.constVal(v)
	case *ssa.Function:
		return &FuncV{Fn: v}
	case *ssa.Global:
		return &PtrV{Kind: PRef, Ref: x.globalRef(v), Elem: v.Type().(*types.Pointer).Elem(), Global: v}
	case *ssa.Builtin:
		return nil
	}
	for i := len(st.frames) - 1; i >= 0; i-- {
		if r, ok := st.frames[i].vals[v]; ok {
			return r
		}
		break
	}
	panic(fmt.Sprintf("%s: no value for %s (%T) in %s", x.key, v.Name(), v, st.frame().fn))
}

func (x *Exec) constVal(c *ssa.Const) Value {
	t := c.Type()
	if c.Value == nil {
		return x.zeroValue(t)
	}
	switch c.Value.Kind() {
	case constant.Bool:
		return mkBool(constant.BoolVal(c.Value))
	case constant.String:
		return x.strLit(constant.StringVal(c.Value))
	case constant.Int:
		if scalarSort(t) == SFlt {
			return x.fltLit(c.Value.ExactString())
		}
		return mkIntStr(c.Value.ExactString())
	case constant.Float:
		if scalarSort(t) == SInt {
			if i, ok := constant.Int64Val(constant.ToInt(c.Value)); ok {
				return mkInt(i)
			}
		}
		return x.fltLit(c.Value.ExactString())
	}
	return x.freshValue("const", t)
}

// ---------------------------------------------------------------- obligations

func (x *Exec) oblige(st *State, kind, label string, goal *Term, desc string, pos token.Pos) {
	if st.dead {
		return
	}
	if goal == nil {
		panic("nil goal for obligation " + kind + ":" + label)
	}
	for i, h := range st.pc {
		if h == nil {
			panic(fmt.Sprintf("nil hypothesis #%d at obligation %s:%s", i, kind, label))
		}
	}
	// a conjunction is discharged conjunct by conjunct (smaller queries); the pieces keep the obligation's name
	if goal.Op == "and" && len(goal.Bound) == 0 && len(goal.Args) > 1 && kind != "cover" {
		for _, g := range goal.Args {
			x.oblige(st, kind, label, g, desc, pos)
		}
		return
	}
	// (=> A (and B C)) is discharged as (=> A B) and (=> A C): smaller queries, and a quantified conjunct becomes the goal of its own
	if goal.Op == "=>" && len(goal.Args) == 2 && len(goal.Bound) == 0 && kind != "cover" {
		if c := goal.Args[1]; c.Op == "and" && len(c.Bound) == 0 && len(c.Args) > 1 {
			for _, g := range c.Args {
				x.oblige(st, kind, label, mkImplies(goal.Args[0], g), desc, pos)
			}
			return
		}
	}
	name := x.key + "#" + kind
	if label != "" {
		name += ":" + label
	}
	o := &Oblig{Name: name, Func: x.key, Kind: kind, Hyps: append([]*Term(nil), st.pc...), Goal: goal, Path: describePath(st), Desc: desc}
	if pos.IsValid() {
		p := x.w.Fset.Position(pos)
		o.Pos = fmt.Sprintf("%s:%d", strings.TrimPrefix(p.Filename, x.w.RepoDir+"/"), p.Line)
	}
	x.obligs = append(x.obligs, o)
}

// instrLabel numbers instructions of a kind in source order inside their function.
func (x *Exec) instrLabel(in ssa.Instruction, kind string) string {
	fn := in.Parent()
	key := kind
	if l, ok := x.labels[in]; ok && strings.HasPrefix(l, key+"|") {
		return strings.TrimPrefix(l, key+"|")
	}
	// collect all instructions of this function that produce this kind, order by position then block order
	type item struct {
		in  ssa.Instruction
		pos token.Pos
		ord int
	}
	var items []item
	ord := 0
	for _, b := range fn.Blocks {
		for _, i := range b.Instrs {
			ord++
			if instrKind(i) == kind {
				items = append(items, item{i, i.Pos(), ord})
			}
		}
	}
	sort.SliceStable(items, func(a, b int) bool {
		if items[a].pos != items[b].pos && items[a].pos.IsValid() && items[b].pos.IsValid() {
			return items[a].pos < items[b].pos
		}
		return items[a].ord < items[b].ord
	})
	for n, it := range items {
		l := fmt.Sprintf("%d", n+1)
		if fn != x.fn {
			l = funcKey(fn) + "/" + l
		}
		x.labels[it.in] = kind + "|" + l
	}
	return strings.TrimPrefix(x.labels[in], key+"|")
}

func instrKind(in ssa.Instruction) string {
	switch i := in.(type) {
	case *ssa.FieldAddr:
		return "nonnil"
	case *ssa.IndexAddr, *ssa.Index:
		return "index"
	case *ssa.Slice:
		return "slice"
	case *ssa.TypeAssert:
		if !i.CommaOk {
			return "assert"
		}
	case *ssa.Panic:
		return "panic"
	case *ssa.BinOp:
		if i.Op == token.QUO || i.Op == token.REM {
			return "div"
		}
		if i.Op == token.ADD || i.Op == token.SUB || i.Op == token.MUL {
			return "overflow"
		}
	case *ssa.UnOp:
		if i.Op == token.MUL {
			return "deref"
		}
	case *ssa.Store:
		return "store"
	case *ssa.Call:
		return "call"
	case *ssa.MapUpdate:
		return "mapupdate"
	case *ssa.Convert:
		return "convert"
	}
	return ""
}
