package main

import (
	"runtime"
	"os"
	"fmt"
	"go/types"
	"sort"
	"strings"

	"golang.org/x/tools/go/ssa"
)

// Frame is one activation (the function under verification, or an inlined callee / closure).
type Frame struct {
	fn      *ssa.Function
	locals  map[*ssa.Alloc]Value
	vals    map[ssa.Value]Value
	block   *ssa.BasicBlock
	prev    *ssa.BasicBlock
	idx     int
	defers  []*deferred
	call    ssa.CallInstruction // call site in the caller frame (nil for the root frame)
	entered map[*ssa.BasicBlock]bool
	depth   int
}

type deferred struct {
	fv   *FuncV
	args []Value
	call *ssa.Defer
}

// State is one symbolic path state.
type State struct {
	frames  []*Frame
	heap    map[string]*Term
	gen     int
	pc      []*Term
	top     *Term
	dead    bool
	steps   int
	trail   []string // human readable path description (block indices)
	rules   map[int]*genRule
	// arrays produced by []rune(s) with their content at that time (so that string(runes[a:b]) can be related to s)
	runeOrigins []runeOrigin
}

type runeOrigin struct{ arr, content, s *Term }

// genRule links a memory generation to its predecessor: heaps for which preserved(name) holds were not written by the call that
// started the generation, so their content is the predecessor's.
type genRule struct {
	prev      *HeapSnap
	preserved func(name string) bool
}

func (st *State) frame() *Frame { return st.frames[len(st.frames)-1] }

func (st *State) clone() *State {
	n := &State{gen: st.gen, top: st.top, steps: st.steps, rules: st.rules, runeOrigins: st.runeOrigins}
	n.pc = append([]*Term(nil), st.pc...)
	n.trail = append([]string(nil), st.trail...)
	n.heap = make(map[string]*Term, len(st.heap))
	for k, v := range st.heap {
		n.heap[k] = v
	}
	for _, f := range st.frames {
		nf := &Frame{fn: f.fn, block: f.block, prev: f.prev, idx: f.idx, call: f.call, depth: f.depth}
		nf.locals = make(map[*ssa.Alloc]Value, len(f.locals))
		for k, v := range f.locals {
			nf.locals[k] = v
		}
		nf.vals = make(map[ssa.Value]Value, len(f.vals))
		for k, v := range f.vals {
			nf.vals[k] = v
		}
		nf.entered = make(map[*ssa.BasicBlock]bool, len(f.entered))
		for k, v := range f.entered {
			nf.entered[k] = v
		}
		nf.defers = append([]*deferred(nil), f.defers...)
		n.frames = append(n.frames, nf)
	}
	return n
}

// HeapSnap is an immutable view of memory at one program point (used for old()).
type HeapSnap struct {
	heap  map[string]*Term
	gen   int
	top   *Term
	rules map[int]*genRule
}

func (st *State) snap() *HeapSnap {
	h := make(map[string]*Term, len(st.heap))
	for k, v := range st.heap {
		h[k] = v
	}
	return &HeapSnap{heap: h, gen: st.gen, top: st.top, rules: st.rules}
}

// heapBase names the unconstrained initial content of a heap array in generation gen.
func heapBase(name string, sort Sort, gen int) *Term {
	return mkVar(fmt.Sprintf("%s_g%d", smtIdent(name), gen), sort)
}

func (st *State) getHeap(name string, sort Sort) *Term {
	if t, ok := st.heap[name]; ok {
		return t
	}
	var t *Term
	if r := st.rules[st.gen]; r != nil && r.preserved(name) {
		t = r.prev.getHeap(name, sort)
	} else {
		t = heapBase(name, sort, st.gen)
	}
	st.heap[name] = t
	return t
}
func (h *HeapSnap) getHeap(name string, sort Sort) *Term {
	if t, ok := h.heap[name]; ok {
		return t
	}
	if r := h.rules[h.gen]; r != nil && r.preserved(name) {
		return r.prev.getHeap(name, sort)
	}
	return heapBase(name, sort, h.gen)
}

// havocExcept starts a new memory generation in which only heaps satisfying preserved keep their content.
func (x *Exec) havocExcept(st *State, preserved func(name string) bool) {
	prev := st.snap()
	st.gen = x.nextGen()
	st.heap = keepSpecial(st.heap)
	nr := make(map[int]*genRule, len(st.rules)+1)
	for k, v := range st.rules {
		nr[k] = v
	}
	nr[st.gen] = &genRule{prev: prev, preserved: preserved}
	st.rules = nr
	ntop := x.fresh("top", SInt)
	x.assumeIn(st, mkCmp("<=", st.top, ntop))
	st.top = ntop
}

// memView lets loads run against the live state or a snapshot.
type memView interface {
	getHeap(name string, sort Sort) *Term
}

// ---- heap naming

var typeIDs = map[string]string{}
var typeByID = map[string]types.Type{}

func typeID(t types.Type) string {
	// byte and rune are aliases: one heap per underlying basic type
	if b, ok := t.(*types.Basic); ok {
		switch b.Kind() {
		case types.Uint8:
			t = types.Typ[types.Uint8]
		case types.Int32:
			t = types.Typ[types.Int32]
		}
	}
	s := typeName(t)
	if id, ok := typeIDs[s]; ok {
		return id
	}
	id := smtIdent(s)
	// keep ids unique even if sanitising collides
	for _, v := range typeIDs {
		if v == id {
			id = fmt.Sprintf("%s_%d", id, len(typeIDs))
		}
	}
	typeIDs[s] = id
	typeByID[id] = t
	return id
}

func fieldHeapName(st types.Type, field int, suffix string) string {
	s, _ := isStructType(st)
	n := fmt.Sprintf("H|%s|%s", typeID(st), s.Field(field).Name())
	if suffix != "" {
		n += "|" + suffix
	}
	return n
}
func cellHeapName(t types.Type, suffix string) string {
	n := "C|" + typeID(t)
	if suffix != "" {
		n += "|" + suffix
	}
	return n
}
func elemHeapName(t types.Type, suffix string) string {
	n := "E|" + typeID(t)
	if suffix != "" {
		n += "|" + suffix
	}
	return n
}

// havocAll forgets everything about memory (an unknown callee ran).
// bookkeeping entries of the state map that are not program memory
func specialKey(k string) bool {
	return strings.HasPrefix(k, "ITER|") || strings.HasPrefix(k, "VARIANT|") || strings.HasPrefix(k, "unroll:") || strings.HasPrefix(k, "callcount:")
}

func keepSpecial(old map[string]*Term) map[string]*Term {
	n := map[string]*Term{}
	for k, v := range old {
		if specialKey(k) {
			n[k] = v
		}
	}
	return n
}

func (x *Exec) havocAll(st *State, why string) {
	st.gen = x.nextGen()
	st.heap = keepSpecial(st.heap)
	ntop := x.fresh("top", SInt)
	x.assumeIn(st, mkCmp("<=", st.top, ntop))
	st.top = ntop
}

func (x *Exec) nextGen() int {
	x.genCtr++
	if os.Getenv("GVC_DEBUG_GEN") != "" {
		fmt.Fprintf(os.Stderr, "GEN %d in %s\n%s\n", x.genCtr, x.key, debugStack())
	}
	return x.genCtr
}

func debugStack() string {
	b := make([]byte, 4096)
	n := runtime.Stack(b, false)
	lines := strings.Split(string(b[:n]), "\n")
	var out []string
	for _, l := range lines {
		if strings.Contains(l, "gvc/") && !strings.Contains(l, "state.go") {
			out = append(out, strings.TrimSpace(l))
		}
		if len(out) >= 4 {
			break
		}
	}
	return strings.Join(out, " <- ")
}

// ---- derived references

func (x *Exec) fldRef(st *State, T types.Type, field int, base *Term) *Term {
	s, _ := isStructType(T)
	name := fmt.Sprintf("fld_%s_%s", typeID(T), s.Field(field).Name())
	x.derivedUFs[name] = 1
	f := &UF{Name: name, Args: []Sort{SInt}, Ret: SInt}
	inv := &UF{Name: name + "_inv", Args: []Sort{SInt}, Ret: SInt}
	r := ufApp(f, base)
	key := r.String()
	if !x.factDone[key] || true {
		// injectivity and non-nil-ness of the derived location (instantiated per occurrence)
		x.assumeIn(st, mkEq(ufApp(inv, r), base))
		// derived locations (fields of struct type, slice elements) live below every allocated object and every global
		x.assumeIn(st, mkImplies(mkNe(base, mkInt(0)), mkCmp("<=", r, mkInt(-1000000))))
	}
	return r
}

func (x *Exec) elemRef(st *State, T types.Type, arr, idx *Term) *Term {
	name := "elem_" + typeID(T)
	x.derivedUFs[name] = 2
	f := &UF{Name: name, Args: []Sort{SInt, SInt}, Ret: SInt}
	invA := &UF{Name: name + "_arr", Args: []Sort{SInt}, Ret: SInt}
	invI := &UF{Name: name + "_idx", Args: []Sort{SInt}, Ret: SInt}
	r := ufApp(f, arr, idx)
	x.assumeIn(st, mkEq(ufApp(invA, r), arr))
	x.assumeIn(st, mkEq(ufApp(invI, r), idx))
	x.assumeIn(st, mkCmp("<=", r, mkInt(-1000000)))
	return r
}

// ---- loads and stores

func (x *Exec) loadStructAt(st *State, m memView, T types.Type, ref *Term) Value {
	if ref.Sort != SInt {
		panic(fmt.Sprintf("internal: struct %s loaded at a non-reference term of sort %s: %s\n%s", typeName(T), ref.Sort, ref.String(), debugStack()))
	}
	s, _ := isStructType(T)
	sv := &StructV{T: T}
	for i := 0; i < s.NumFields(); i++ {
		ft := s.Field(i).Type()
		sv.F = append(sv.F, x.loadField(st, m, T, i, ref, ft))
	}
	return sv
}

func (x *Exec) loadField(st *State, m memView, T types.Type, i int, ref *Term, ft types.Type) Value {
	if _, ok := isStructType(ft); ok {
		return x.loadStructAt(st, m, ft, x.fldRef(st, T, i, ref))
	}
	var ts []*Term
	for _, c := range comps(ft) {
		ts = append(ts, mkSelect(m.getHeap(fieldHeapName(T, i, c.Suffix), arrSort(SInt, c.Sort)), ref))
	}
	v, _ := x.rebuild(ft, ts)
	x.typeFacts(st, v, ft)
	return v
}

func (x *Exec) storeField(st *State, T types.Type, i int, ref *Term, ft types.Type, v Value) {
	if _, ok := isStructType(ft); ok {
		x.storeStructAt(st, ft, x.fldRef(st, T, i, ref), v)
		return
	}
	ts := flatten(x.asPlain(st, v, ft))
	cs := comps(ft)
	if len(ts) != len(cs) {
		panic(fmt.Sprintf("storeField %s.%d: %d terms for %d comps (%T)", typeName(T), i, len(ts), len(cs), v))
	}
	for k, c := range cs {
		name := fieldHeapName(T, i, c.Suffix)
		st.heap[name] = mkStore(st.getHeap(name, arrSort(SInt, c.Sort)), ref, ts[k])
	}
}

func (x *Exec) storeStructAt(st *State, T types.Type, ref *Term, v Value) {
	s, _ := isStructType(T)
	sv, ok := v.(*StructV)
	if !ok {
		panic(fmt.Sprintf("storeStructAt: %T", v))
	}
	for i := 0; i < s.NumFields(); i++ {
		x.storeField(st, T, i, ref, s.Field(i).Type(), sv.F[i])
	}
}

// asPlain converts address-like values into storable scalars (a *PtrV of kind PRef is its reference).
func (x *Exec) asPlain(st *State, v Value, t types.Type) Value {
	switch p := v.(type) {
	case *PtrV:
		if p.Kind == PRef {
			return p.Ref
		}
		// the address of a local / field / element escapes: not modelled -> opaque reference
		x.note("abstracted: address of %s escapes into memory or a call", describeValue(p))
		r := x.fresh("escaped", SInt)
		x.assumeIn(st, mkCmp(">", r, mkInt(0)))
		return r
	case *FuncV:
		return x.funcRef(p)
	}
	return v
}

func (x *Exec) funcRef(f *FuncV) *Term {
	name := "fn_" + smtIdent(funcKey(f.Fn))
	if len(f.Bindings) > 0 {
		return x.fresh(name+"_closure", SInt)
	}
	t := mkVar(name, SInt)
	x.knownFuncs[t.String()] = f
	return t
}

func (x *Exec) load(st *State, m memView, p *PtrV) Value {
	t := p.Elem
	if p.Global != nil && x.inInit && p.Global.Name() == "init$guard" {
		return tFalse
	}
	if p.Global != nil && p.Kind == PRef && !x.initRan[p.Global.Pkg.Pkg.Path()] && x.immutableGlobal(p.Global) {
		if c := x.initConst(p.Global); c != nil && !(x.spec != nil && x.spec.Unknown[p.Global.Name()]) {
			return x.constVal(c)
		}
		if _, isStruct := isStructType(t); !isStruct {
			var ts []*Term
			for _, c := range comps(t) {
				ts = append(ts, mkVar("glob_"+smtIdent(shortPkg(p.Global.Pkg.Pkg.Path())+"."+p.Global.Name())+smtIdent(c.Suffix), c.Sort))
			}
			v, _ := x.rebuild(t, ts)
			x.typeFactsNoTop(st, v, t)
			return v
		}
	}
	switch p.Kind {
	case PLocal:
		fr := st.frames[p.Frame]
		v, ok := fr.locals[p.Alloc]
		if !ok {
			panic("load of unset local " + p.Alloc.Comment)
		}
		return v
	case PLocalField:
		v := st.frames[p.Frame].locals[p.Alloc]
		for _, i := range p.Path {
			v = v.(*StructV).F[i]
		}
		return v
	case PRef:
		if _, ok := isStructType(t); ok {
			return x.loadStructAt(st, m, t, p.Ref)
		}
		var ts []*Term
		for _, c := range comps(t) {
			ts = append(ts, mkSelect(m.getHeap(cellHeapName(t, c.Suffix), arrSort(SInt, c.Sort)), p.Ref))
		}
		v, _ := x.rebuild(t, ts)
		x.typeFacts(st, v, t)
		return v
	case PField:
		s, _ := isStructType(p.ST)
		return x.loadField(st, m, p.ST, p.Field, p.Ref, s.Field(p.Field).Type())
	case PElem:
		if _, ok := isStructType(t); ok {
			return x.loadStructAt(st, m, t, x.elemRef(st, t, p.Ref, p.Idx))
		}
		var ts []*Term
		for _, c := range comps(t) {
			ts = append(ts, mkSelect(mkSelect(m.getHeap(elemHeapName(t, c.Suffix), arrSort(SInt, arrSort(SInt, c.Sort))), p.Ref), p.Idx))
		}
		v, _ := x.rebuild(t, ts)
		x.typeFacts(st, v, t)
		return v
	}
	panic("load: bad pointer kind")
}

func (x *Exec) store(st *State, p *PtrV, v Value) {
	t := p.Elem
	switch p.Kind {
	case PLocal:
		st.frames[p.Frame].locals[p.Alloc] = v
	case PLocalField:
		var upd func(cur Value, path []int) Value
		upd = func(cur Value, path []int) Value {
			if len(path) == 0 {
				return v
			}
			sv := cur.(*StructV)
			n := &StructV{T: sv.T, F: append([]Value{}, sv.F...)}
			n.F[path[0]] = upd(sv.F[path[0]], path[1:])
			return n
		}
		st.frames[p.Frame].locals[p.Alloc] = upd(st.frames[p.Frame].locals[p.Alloc], p.Path)
	case PRef:
		if _, ok := isStructType(t); ok {
			x.storeStructAt(st, t, p.Ref, v)
			return
		}
		ts := flatten(x.asPlain(st, v, t))
		for k, c := range comps(t) {
			name := cellHeapName(t, c.Suffix)
			st.heap[name] = mkStore(st.getHeap(name, arrSort(SInt, c.Sort)), p.Ref, ts[k])
		}
	case PField:
		s, _ := isStructType(p.ST)
		x.storeField(st, p.ST, p.Field, p.Ref, s.Field(p.Field).Type(), v)
	case PElem:
		if _, ok := isStructType(t); ok {
			x.storeStructAt(st, t, x.elemRef(st, t, p.Ref, p.Idx), v)
			return
		}
		ts := flatten(x.asPlain(st, v, t))
		for k, c := range comps(t) {
			name := elemHeapName(t, c.Suffix)
			h := st.getHeap(name, arrSort(SInt, arrSort(SInt, c.Sort)))
			st.heap[name] = mkStore(h, p.Ref, mkStore(mkSelect(h, p.Ref), p.Idx, ts[k]))
		}
	default:
		panic("store: bad pointer kind")
	}
}

// typeFacts adds what the Go type system guarantees about a value read from memory or returned by unknown code:
// integer ranges, well-formed slice headers, references below the allocation watermark.
func (x *Exec) typeFacts(st *State, v Value, t types.Type) {
	switch u := t.Underlying().(type) {
	case *types.Basic:
		if tv, ok := v.(*Term); ok && tv.Sort == SInt && !tv.Lit {
			if r := intRange(u); r != nil {
				x.assumeIn(st, mkAnd(mkCmp("<=", mkIntStr(r[0]), tv), mkCmp("<=", tv, mkIntStr(r[1]))))
			}
		}
	case *types.Slice:
		if s, ok := v.(*SliceV); ok {
			x.assumeIn(st, x.sliceWF(s))
			x.assumeIn(st, mkCmp("<=", s.Arr, st.top))
		}
	case *types.Pointer:
		var r *Term
		switch p := v.(type) {
		case *PtrV:
			if p.Kind == PRef {
				r = p.Ref
			}
		case *Term:
			r = p
		}
		if r != nil && !r.Lit {
			x.assumeIn(st, mkCmp("<=", r, st.top))
		}
	case *types.Struct:
		if sv, ok := v.(*StructV); ok {
			for i := 0; i < u.NumFields(); i++ {
				x.typeFacts(st, sv.F[i], u.Field(i).Type())
			}
		}
	case *types.Interface, *types.Map, *types.Signature, *types.Chan:
		if tv, ok := v.(*Term); ok && tv.Sort == SInt && !tv.Lit {
			x.assumeIn(st, mkCmp(">=", tv, mkInt(0)))
		}
	}
}

// globalRef is the (constant, negative) reference standing for the storage of a package-level variable.
func (x *Exec) globalRef(g *ssa.Global) *Term {
	key := g.Pkg.Pkg.Path() + "." + g.Name()
	if id, ok := x.globalIDs[key]; ok {
		return mkInt(id)
	}
	// deterministic numbering: sort all globals of the program once
	if x.globalIDs == nil || len(x.globalIDs) == 0 {
		x.globalIDs = map[string]int64{}
		var names []string
		for _, p := range x.w.Prog.AllPackages() {
			for _, m := range p.Members {
				if gg, ok := m.(*ssa.Global); ok {
					names = append(names, gg.Pkg.Pkg.Path()+"."+gg.Name())
				}
			}
		}
		sort.Strings(names)
		for i, n := range names {
			x.globalIDs[n] = -int64(i + 10)
		}
	}
	return mkInt(x.globalIDs[key])
}

func describePath(st *State) string { return strings.Join(st.trail, ">") }

// immutableGlobal: package-level variables of dependencies, and in-repo ones that no in-repo function (other than package
// initialisers) ever stores to, are treated as constants. The first half is an assumption listed in the evidence.
func (x *Exec) immutableGlobal(g *ssa.Global) bool {
	key := g.Pkg.Pkg.Path() + "." + g.Name()
	if v, ok := immutableCache[key]; ok {
		return v
	}
	res := true
	if inRepo(g.Pkg.Pkg.Path()) {
		for _, f := range x.w.allFuncs(inRepo) {
			if f.Name() == "init" || strings.HasPrefix(f.Name(), "init#") || (f.Parent() != nil && strings.HasPrefix(f.Parent().Name(), "init")) {
				continue
			}
			for _, b := range f.Blocks {
				for _, in := range b.Instrs {
					switch in := in.(type) {
					case *ssa.Store:
						if in.Addr == g {
							res = false
						}
					case *ssa.Call:
						// address passed to a call (e.g. atomic.AddInt64(&nodeID, 1)): mutable
						for _, a := range in.Call.Args {
							if a == g {
								res = false
							}
						}
					}
				}
			}
		}
	} else {
		x.note("assumption: package-level variable %s of a dependency is never reassigned", key)
	}
	immutableCache[key] = res
	return res
}

var immutableCache = map[string]bool{}

func (x *Exec) typeFactsNoTop(st *State, v Value, t types.Type) {
	switch t.Underlying().(type) {
	case *types.Pointer, *types.Slice:
		return
	}
	x.typeFacts(st, v, t)
}

// repoFieldHeap: is name the heap of a field of a struct type declared in the repository?
func repoFieldHeap(name string) bool {
	if !strings.HasPrefix(name, "H|") {
		return false
	}
	parts := strings.Split(name, "|")
	t := typeByID[parts[1]]
	if t == nil {
		return false
	}
	if n, ok := t.(*types.Named); ok && n.Obj().Pkg() != nil {
		return inRepo(n.Obj().Pkg().Path())
	}
	return false
}

// initConst: the constant a never-reassigned in-repo package-level variable is initialised with (nil if not a constant).
func (x *Exec) initConst(g *ssa.Global) *ssa.Const {
	if !inRepo(g.Pkg.Pkg.Path()) {
		return nil
	}
	key := g.Pkg.Pkg.Path() + "." + g.Name()
	if c, ok := initConstCache[key]; ok {
		return c
	}
	var res *ssa.Const
	n := 0
	if init := g.Pkg.Func("init"); init != nil {
		for _, b := range init.Blocks {
			for _, in := range b.Instrs {
				if s, ok := in.(*ssa.Store); ok && s.Addr == g {
					n++
					if c, ok := s.Val.(*ssa.Const); ok {
						res = c
					}
				}
			}
		}
	}
	if n != 1 {
		res = nil
	}
	initConstCache[key] = res
	return res
}

var initConstCache = map[string]*ssa.Const{}
