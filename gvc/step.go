package main

import (
	"sort"
	"fmt"
	"go/token"
	"go/types"

	"golang.org/x/tools/go/ssa"
)

// loopInfo: natural loops of a function.
type loopInfo struct {
	headers []*ssa.BasicBlock               // in source order
	ordinal map[*ssa.BasicBlock]int         // 1-based
	body    map[*ssa.BasicBlock]map[*ssa.BasicBlock]bool
}

func (x *Exec) loopsOf(fn *ssa.Function) *loopInfo {
	if li, ok := x.loops[fn]; ok {
		return li
	}
	li := &loopInfo{ordinal: map[*ssa.BasicBlock]int{}, body: map[*ssa.BasicBlock]map[*ssa.BasicBlock]bool{}}
	for _, b := range fn.Blocks {
		for _, s := range b.Succs {
			if s.Dominates(b) { // back edge b -> s
				if li.body[s] == nil {
					li.body[s] = map[*ssa.BasicBlock]bool{s: true}
					li.headers = append(li.headers, s)
				}
				// collect body: nodes that reach b without passing through s
				stack := []*ssa.BasicBlock{b}
				for len(stack) > 0 {
					n := stack[len(stack)-1]
					stack = stack[:len(stack)-1]
					if li.body[s][n] {
						continue
					}
					li.body[s][n] = true
					stack = append(stack, n.Preds...)
				}
			}
		}
	}
	// order headers by source position of their first positioned instruction, fall back to block index
	posOf := func(b *ssa.BasicBlock) token.Pos {
		best := token.NoPos
		for blk := range li.body[b] {
			for _, in := range blk.Instrs {
				if p := in.Pos(); p.IsValid() && (best == token.NoPos || p < best) {
					best = p
				}
			}
		}
		return best
	}
	hs := li.headers
	for i := 0; i < len(hs); i++ {
		for j := i + 1; j < len(hs); j++ {
			pi, pj := posOf(hs[i]), posOf(hs[j])
			if pj < pi || (pi == pj && hs[j].Index < hs[i].Index) {
				hs[i], hs[j] = hs[j], hs[i]
			}
		}
	}
	for i, h := range hs {
		li.ordinal[h] = i + 1
	}
	x.loops[fn] = li
	return li
}

// run explores all paths from st until they end; each path ends at a return of the root frame, a panic, or a loop back edge.
func (x *Exec) run(st *State) {
	work := []*State{st}
	for len(work) > 0 {
		s := work[len(work)-1]
		work = work[:len(work)-1]
		for !s.dead {
			x.budget--
			if x.budget < 0 {
				x.tooLarge = true
				return
			}
			forks, done := x.step(s)
			work = append(work, forks...)
			if done {
				break
			}
		}
	}
}

// step executes one instruction of the top frame. It may fork (returns extra states) and reports whether the path ended.
func (x *Exec) step(st *State) (forks []*State, done bool) {
	x.cur = st
	fr := st.frame()
	if fr.idx >= len(fr.block.Instrs) {
		panic("ran off block")
	}
	in := fr.block.Instrs[fr.idx]
	fr.idx++
	st.steps++
	switch in := in.(type) {
	case *ssa.DebugRef:
	case *ssa.Alloc:
		fr.vals[in] = x.doAlloc(st, in)
	case *ssa.Store:
		p := x.ptr(st, in.Addr)
		x.checkDeref(st, in, p, "store")
		x.store(st, p, x.val(st, in.Val))
	case *ssa.UnOp:
		fr.vals[in] = x.doUnOp(st, in)
	case *ssa.BinOp:
		fr.vals[in] = x.doBinOp(st, in)
	case *ssa.FieldAddr:
		base := x.ptr(st, in.X)
		T := in.X.Type().Underlying().(*types.Pointer).Elem()
		if base.Kind == PLocal || base.Kind == PLocalField {
			s, _ := isStructType(T)
			fr.vals[in] = &PtrV{Kind: PLocalField, Alloc: base.Alloc, Frame: base.Frame, Path: append(append([]int{}, base.Path...), in.Field), Elem: s.Field(in.Field).Type()}
			break
		}
		ref := x.refOf(st, base)
		if x.safety && !x.knownNonNil(st, ref) {
			x.oblige(st, "nonnil", x.instrLabel(in, "nonnil"), mkNe(ref, mkInt(0)), "pointer dereferenced by field access is not nil", in.Pos())
		}
		x.assume(mkNe(ref, mkInt(0)))
		s, _ := isStructType(T)
		ft := s.Field(in.Field).Type()
		if _, ok := isStructType(ft); ok {
			fr.vals[in] = &PtrV{Kind: PRef, Ref: x.fldRef(st, T, in.Field, ref), Elem: ft}
		} else {
			fr.vals[in] = &PtrV{Kind: PField, Ref: ref, ST: T, Field: in.Field, Elem: ft}
		}
	case *ssa.Field:
		sv := x.val(st, in.X).(*StructV)
		fr.vals[in] = sv.F[in.Field]
	case *ssa.IndexAddr:
		fr.vals[in] = x.doIndexAddr(st, in)
	case *ssa.Index:
		fr.vals[in] = x.doIndex(st, in)
	case *ssa.Slice:
		fr.vals[in] = x.doSlice(st, in)
	case *ssa.Convert:
		fr.vals[in] = x.doConvert(st, in)
	case *ssa.ChangeType:
		fr.vals[in] = x.val(st, in.X)
	case *ssa.ChangeInterface:
		fr.vals[in] = x.val(st, in.X)
	case *ssa.MakeInterface:
		fr.vals[in] = x.box(st, in.X.Type(), x.val(st, in.X))
	case *ssa.TypeAssert:
		b := x.val(st, in.X).(*Term)
		ok := x.typeIs(st, b, in.AssertedType)
		var v Value
		if _, isIface := in.AssertedType.Underlying().(*types.Interface); isIface {
			v = mkIte(ok, b, mkInt(0))
		} else {
			v = x.unbox(st, in.AssertedType, b)
		}
		if in.CommaOk {
			fr.vals[in] = TupleV{v, ok}
		} else {
			if x.safety {
				x.oblige(st, "assert", x.instrLabel(in, "assert"), ok, "type assertion without comma-ok succeeds", in.Pos())
			}
			x.assume(ok)
			fr.vals[in] = v
		}
	case *ssa.Extract:
		fr.vals[in] = x.val(st, in.Tuple).(TupleV)[in.Index]
	case *ssa.Phi:
		for i, p := range fr.block.Preds {
			if p == fr.prev {
				fr.vals[in] = x.val(st, in.Edges[i])
			}
		}
	case *ssa.MakeClosure:
		fv := &FuncV{Fn: in.Fn.(*ssa.Function)}
		for _, b := range in.Bindings {
			fv.Bindings = append(fv.Bindings, x.val(st, b))
		}
		fr.vals[in] = fv
	case *ssa.MakeSlice:
		ln := x.val(st, in.Len).(*Term)
		cp := x.val(st, in.Cap).(*Term)
		if x.safety {
			x.oblige(st, "makeslice", x.instrLabel(in, ""), mkAnd(mkCmp("<=", mkInt(0), ln), mkCmp("<=", ln, cp)), "make([]T, len, cap) with 0 <= len <= cap", in.Pos())
		}
		x.assume(mkAnd(mkCmp("<=", mkInt(0), ln), mkCmp("<=", ln, cp)))
		arr := x.newRef(st)
		et := in.Type().Underlying().(*types.Slice).Elem()
		x.zeroArray(st, et, arr)
		fr.vals[in] = &SliceV{arr, mkInt(0), ln, cp}
	case *ssa.MakeMap:
		fr.vals[in] = x.newMap(st, in.Type())
	case *ssa.Lookup:
		fr.vals[in] = x.doLookup(st, in)
	case *ssa.MapUpdate:
		x.doMapUpdate(st, in)
	case *ssa.Range:
		fr.vals[in] = x.doRange(st, in)
	case *ssa.Next:
		fr.vals[in] = x.doNext(st, in)
	case *ssa.Call:
		return x.doCall(st, in)
	case *ssa.Defer:
		fv, _ := x.val(st, in.Call.Value).(*FuncV)
		if fv == nil || in.Call.IsInvoke() {
			x.unsupported = append(x.unsupported, "defer of a non-static callee")
			st.dead = true
			return nil, true
		}
		var args []Value
		for _, a := range in.Call.Args {
			args = append(args, x.val(st, a))
		}
		fr.defers = append(fr.defers, &deferred{fv: fv, args: args, call: in})
	case *ssa.RunDefers:
		if len(fr.defers) > 0 {
			d := fr.defers[len(fr.defers)-1]
			fr.defers = fr.defers[:len(fr.defers)-1]
			fr.idx-- // come back to RunDefers until the stack is empty
			x.pushFrame(st, d.fv, d.args, nil)
		}
	case *ssa.If:
		c := x.val(st, in.Cond).(*Term)
		tb, fb := fr.block.Succs[0], fr.block.Succs[1]
		if c == tTrue {
			return x.jump(st, tb)
		}
		if c == tFalse {
			return x.jump(st, fb)
		}
		other := st.clone()
		x.assumeIn(st, c)
		x.assumeIn(other, mkNot(c))
		f1, d1 := x.jump(st, tb)
		x.cur = other
		f2, d2 := x.jump(other, fb)
		forks = append(forks, f1...)
		forks = append(forks, f2...)
		if !d2 && !other.dead {
			forks = append(forks, other)
		}
		return forks, d1
	case *ssa.Jump:
		return x.jump(st, fr.block.Succs[0])
	case *ssa.Return:
		return x.doReturn(st, in)
	case *ssa.Panic:
		if x.safety {
			x.panicOblig(st, in)
		}
		st.dead = true
		return nil, true
	case *ssa.Go, *ssa.Select, *ssa.Send, *ssa.MakeChan:
		x.unsupported = append(x.unsupported, fmt.Sprintf("%T", in))
		st.dead = true
		return nil, true
	default:
		x.unsupported = append(x.unsupported, fmt.Sprintf("%T", in))
		st.dead = true
		return nil, true
	}
	return nil, false
}

func (x *Exec) panicOblig(st *State, in *ssa.Panic) {
	// `panics when c`: the panic is allowed exactly when the declared condition held at entry
	var allowed *Term = tFalse
	if x.spec != nil && st.frame().fn == x.fn {
		for _, c := range x.spec.Panics {
			allowed = mkOr(allowed, x.evalBoolEntry(st, c.E))
		}
	}
	x.oblige(st, "panic", x.instrLabel(in, "panic"), allowed, "explicit panic is unreachable (or covered by `panics when`)", in.Pos())
}

func (x *Exec) knownNonNil(st *State, ref *Term) bool {
	if n, ok := isLitInt(ref); ok && n != 0 {
		return true
	}
	if ref.UF != nil && (len(ref.UF.Name) > 4 && (ref.UF.Name[:4] == "fld_" || ref.UF.Name[:5] == "elem_")) {
		return false
	}
	return false
}

// ptr evaluates an address-typed operand.
func (x *Exec) ptr(st *State, v ssa.Value) *PtrV {
	r := x.val(st, v)
	switch p := r.(type) {
	case *PtrV:
		return p
	case *Term:
		return &PtrV{Kind: PRef, Ref: p, Elem: v.Type().Underlying().(*types.Pointer).Elem()}
	}
	panic(fmt.Sprintf("ptr: %T for %s", r, v.Name()))
}

// refOf: the reference of a pointer to a struct object.
func (x *Exec) refOf(st *State, p *PtrV) *Term {
	switch p.Kind {
	case PRef:
		return p.Ref
	case PElem:
		return x.elemRef(st, p.Elem, p.Ref, p.Idx)
	}
	panic("refOf: pointer to struct of kind " + fmt.Sprint(p.Kind))
}

func (x *Exec) newRef(st *State) *Term {
	st.top = mkAdd(st.top, mkInt(1))
	// ghosts declared `initzero`: a new object starts with the zero ghost value
	for _, name := range x.initZeroGhosts() {
		g := x.sp.Ghosts[name]
		h := st.getHeap("G|"+g.Name, x.ghostHeapSort(g))
		x.assumeIn(st, mkEq(mkSelect(h, st.top), mkInt(0)))
	}
	return st.top
}

func (x *Exec) initZeroGhosts() []string {
	if x.izGhosts == nil {
		x.izGhosts = []string{}
		for n, g := range x.sp.Ghosts {
			if g.InitZero && len(g.Params) == 1 {
				x.izGhosts = append(x.izGhosts, n)
			}
		}
		sort.Strings(x.izGhosts)
	}
	return x.izGhosts
}

func (x *Exec) zeroArray(st *State, et types.Type, arr *Term) {
	if _, ok := isStructType(et); ok {
		return // struct elements live at elem refs; zero-ness not modelled (reads are unconstrained)
	}
	z := flatten(x.zeroValue(et))
	for k, c := range comps(et) {
		name := elemHeapName(et, c.Suffix)
		h := st.getHeap(name, arrSort(SInt, arrSort(SInt, c.Sort)))
		constArr := app(fmt.Sprintf("(as const %s)", arrSort(SInt, c.Sort)), arrSort(SInt, c.Sort), z[k])
		st.heap[name] = mkStore(h, arr, constArr)
	}
}

func (x *Exec) doAlloc(st *State, in *ssa.Alloc) Value {
	t := in.Type().(*types.Pointer).Elem()
	_, isStruct := isStructType(t)
	_, isArray := t.Underlying().(*types.Array)
	if !in.Heap && !isArray && (!isStruct || localStructOK(in)) {
		fr := st.frame()
		fr.locals[in] = x.zeroValue(t)
		return &PtrV{Kind: PLocal, Alloc: in, Frame: len(st.frames) - 1, Elem: t}
	}
	ref := x.newRef(st)
	p := &PtrV{Kind: PRef, Ref: ref, Elem: t}
	if isArray {
		x.zeroArray(st, t.Underlying().(*types.Array).Elem(), ref)
		return p
	}
	x.store(st, p, x.zeroValue(t))
	return p
}

func (x *Exec) checkDeref(st *State, in ssa.Instruction, p *PtrV, what string) {
	if p.Kind != PRef || p.Global != nil {
		return
	}
	if _, ok := isLitInt(p.Ref); ok {
		return
	}
	if p.Ref.Op == "+" { // freshly allocated
		return
	}
	if x.safety {
		x.oblige(st, "nonnil", what+instrLabelSuffix(x, in), mkNe(p.Ref, mkInt(0)), "pointer dereferenced by "+what+" is not nil", in.Pos())
	}
	x.assume(mkNe(p.Ref, mkInt(0)))
}

func instrLabelSuffix(x *Exec, in ssa.Instruction) string {
	k := instrKind(in)
	if k == "" {
		return ""
	}
	return x.instrLabel(in, k)
}

func (x *Exec) doUnOp(st *State, in *ssa.UnOp) Value {
	switch in.Op {
	case token.MUL:
		p := x.ptr(st, in.X)
		x.checkDeref(st, in, p, "load")
		return x.load(st, st, p)
	case token.NOT:
		return mkNot(x.val(st, in.X).(*Term))
	case token.SUB:
		v := x.val(st, in.X).(*Term)
		if v.Sort == SFlt {
			return ufApp(&UF{"fneg", []Sort{SFlt}, SFlt}, v)
		}
		return x.wrapInt(st, in, mkSub(mkInt(0), v), in.Type())
	case token.XOR:
		return x.freshValue("bitnot", in.Type())
	case token.ARROW:
		x.unsupported = append(x.unsupported, "channel receive")
		st.dead = true
		return nil
	}
	panic("unop " + in.Op.String())
}

// wrapInt: results of integer arithmetic. Mathematical by default; with `checks overflow` a range obligation is emitted.
func (x *Exec) wrapInt(st *State, in ssa.Instruction, r *Term, t types.Type) *Term {
	b, ok := t.Underlying().(*types.Basic)
	if !ok {
		return r
	}
	rg := intRange(b)
	if rg == nil {
		return r
	}
	if _, lit := isLitInt(r); lit {
		return r
	}
	inRange := mkAnd(mkCmp("<=", mkIntStr(rg[0]), r), mkCmp("<=", r, mkIntStr(rg[1])))
	if x.spec != nil && x.spec.Overflow {
		x.oblige(st, "overflow", x.instrLabel(in, instrKind(in)), inRange, "integer arithmetic result fits "+b.Name(), in.Pos())
		x.assume(inRange)
		return r
	}
	// mathematical integers assumed (recorded as an assumption in the evidence)
	x.note("assumption: integer arithmetic in %s treated as mathematical (no wrap-around)", funcKey(in.Parent()))
	x.assume(inRange)
	return r
}

func (x *Exec) doBinOp(st *State, in *ssa.BinOp) Value {
	a, b := x.val(st, in.X), x.val(st, in.Y)
	xt := in.X.Type()
	switch in.Op {
	case token.EQL, token.NEQ:
		var eq *Term
		switch av := a.(type) {
		case *SliceV: // only comparison with nil is legal
			eq = mkEq(av.Arr, mkInt(0))
			if bs, ok := b.(*SliceV); ok {
				if n, lit := isLitInt(bs.Arr); !(lit && n == 0) {
					eq = mkEq(bs.Arr, mkInt(0))
				}
			}
		case *PtrV:
			eq = x.ptrEq(st, av, b)
		case *FuncV:
			eq = tFalse // func values compare only to nil
		default:
			if bp, ok := b.(*PtrV); ok {
				eq = x.ptrEq(st, bp, a)
			} else if _, ok := b.(*FuncV); ok {
				eq = tFalse
			} else {
				eq = valueEq(a, b)
			}
		}
		if in.Op == token.NEQ {
			return mkNot(eq)
		}
		return eq
	}
	at, aok := a.(*Term)
	bt, bok := b.(*Term)
	if !aok || !bok {
		panic(fmt.Sprintf("binop %s on %T,%T", in.Op, a, b))
	}
	switch scalarSort(xt) {
	case SStr:
		switch in.Op {
		case token.ADD:
			r := ufApp(ufConcat, at, bt)
			x.assume(mkEq(ufApp(ufSlen, r), mkAdd(ufApp(ufSlen, at), ufApp(ufSlen, bt))))
			return r
		case token.LSS, token.LEQ, token.GTR, token.GEQ:
			return ufApp(&UF{"scmp_" + smtIdent(in.Op.String()), []Sort{SStr, SStr}, SBool}, at, bt)
		}
	case SFlt:
		switch in.Op {
		case token.LSS, token.LEQ, token.GTR, token.GEQ:
			return ufApp(&UF{"fcmp_" + map[token.Token]string{token.LSS: "lt", token.LEQ: "le", token.GTR: "gt", token.GEQ: "ge"}[in.Op], []Sort{SFlt, SFlt}, SBool}, at, bt)
		default:
			return ufApp(&UF{"fop_" + map[token.Token]string{token.ADD: "add", token.SUB: "sub", token.MUL: "mul", token.QUO: "div"}[in.Op], []Sort{SFlt, SFlt}, SFlt}, at, bt)
		}
	case SBool:
		switch in.Op {
		case token.AND, token.LAND:
			return mkAnd(at, bt)
		case token.OR, token.LOR:
			return mkOr(at, bt)
		}
	case SInt:
		switch in.Op {
		case token.ADD:
			return x.wrapInt(st, in, mkAdd(at, bt), in.Type())
		case token.SUB:
			return x.wrapInt(st, in, mkSub(at, bt), in.Type())
		case token.MUL:
			return x.wrapInt(st, in, mkMul(at, bt), in.Type())
		case token.QUO, token.REM:
			if x.safety {
				if _, lit := isLitInt(bt); !lit {
					x.oblige(st, "div", x.instrLabel(in, "div"), mkNe(bt, mkInt(0)), "integer divisor is not zero", in.Pos())
				}
			}
			x.assume(mkNe(bt, mkInt(0)))
			// Go truncates toward zero; SMT div/mod are Euclidean
			q := mkIte(mkCmp(">=", at, mkInt(0)), app("div", SInt, at, bt), app("-", SInt, app("div", SInt, app("-", SInt, at), bt)))
			if in.Op == token.QUO {
				return x.wrapInt(st, in, q, in.Type())
			}
			return mkSub(at, mkMul(bt, q))
		case token.LSS:
			return mkCmp("<", at, bt)
		case token.LEQ:
			return mkCmp("<=", at, bt)
		case token.GTR:
			return mkCmp(">", at, bt)
		case token.GEQ:
			return mkCmp(">=", at, bt)
		case token.AND, token.OR, token.XOR, token.SHL, token.SHR, token.AND_NOT:
			r := ufApp(&UF{"bitop_" + smtIdent(in.Op.String()), []Sort{SInt, SInt}, SInt}, at, bt)
			x.typeFacts(st, r, in.Type())
			return r
		}
	}
	panic(fmt.Sprintf("binop %s on %s", in.Op, xt))
}

func (x *Exec) ptrEq(st *State, p *PtrV, other Value) *Term {
	switch o := other.(type) {
	case *PtrV:
		if p.Kind == PRef && o.Kind == PRef {
			return mkEq(p.Ref, o.Ref)
		}
		if p.Kind != PRef && o.Kind == PRef {
			if n, ok := isLitInt(o.Ref); ok && n == 0 {
				return tFalse // address of a variable/field/element is never nil
			}
		}
		if o.Kind != PRef && p.Kind == PRef {
			if n, ok := isLitInt(p.Ref); ok && n == 0 {
				return tFalse
			}
		}
		return x.fresh("ptrcmp", SBool)
	case *Term:
		if p.Kind == PRef {
			return mkEq(p.Ref, o)
		}
		if n, ok := isLitInt(o); ok && n == 0 {
			return tFalse
		}
	}
	return x.fresh("ptrcmp", SBool)
}

func (x *Exec) doIndexAddr(st *State, in *ssa.IndexAddr) Value {
	idx := x.val(st, in.Index).(*Term)
	switch xt := in.X.Type().Underlying().(type) {
	case *types.Slice:
		s := x.val(st, in.X).(*SliceV)
		if x.safety {
			x.oblige(st, "index", x.instrLabel(in, "index"), mkAnd(mkCmp("<=", mkInt(0), idx), mkCmp("<", idx, s.Len)), "slice index within [0,len)", in.Pos())
		}
		x.assume(mkAnd(mkCmp("<=", mkInt(0), idx), mkCmp("<", idx, s.Len)))
		if _, isStruct := isStructType(xt.Elem()); isStruct {
			// struct elements live at derived references
			return &PtrV{Kind: PRef, Ref: x.elemRef(st, xt.Elem(), s.Arr, mkAdd(s.Off, idx)), Elem: xt.Elem()}
		}
		return &PtrV{Kind: PElem, Ref: s.Arr, Idx: mkAdd(s.Off, idx), Elem: xt.Elem()}
	case *types.Pointer: // pointer to array
		at := xt.Elem().Underlying().(*types.Array)
		p := x.ptr(st, in.X)
		ref := x.refOf(st, p)
		if x.safety {
			if _, lit := isLitInt(idx); !lit {
				x.oblige(st, "index", x.instrLabel(in, "index"), mkAnd(mkCmp("<=", mkInt(0), idx), mkCmp("<", idx, mkInt(at.Len()))), "array index within bounds", in.Pos())
			}
		}
		return &PtrV{Kind: PElem, Ref: ref, Idx: idx, Elem: at.Elem()}
	}
	panic("indexaddr on " + in.X.Type().String())
}

var ufSByte = &UF{"sbyte", []Sort{SStr, SInt}, SInt}

func (x *Exec) doIndex(st *State, in *ssa.Index) Value {
	idx := x.val(st, in.Index).(*Term)
	if scalarSort(in.X.Type()) == SStr {
		s := x.val(st, in.X).(*Term)
		bound := mkAnd(mkCmp("<=", mkInt(0), idx), mkCmp("<", idx, ufApp(ufSlen, s)))
		if x.safety {
			x.oblige(st, "index", x.instrLabel(in, "index"), bound, "string index within [0,len)", in.Pos())
		}
		x.assume(bound)
		r := ufApp(ufSByte, s, idx)
		x.assume(mkAnd(mkCmp("<=", mkInt(0), r), mkCmp("<=", r, mkInt(255))))
		return r
	}
	return x.freshValue("arrayindex", in.Type())
}

func (x *Exec) doSlice(st *State, in *ssa.Slice) Value {
	var lo, hi *Term
	if in.Low != nil {
		lo = x.val(st, in.Low).(*Term)
	} else {
		lo = mkInt(0)
	}
	switch xt := in.X.Type().Underlying().(type) {
	case *types.Slice:
		s := x.val(st, in.X).(*SliceV)
		if in.High != nil {
			hi = x.val(st, in.High).(*Term)
		} else {
			hi = s.Len
		}
		mx := s.Cap
		if in.Max != nil {
			mx = x.val(st, in.Max).(*Term)
		}
		bound := mkAnd(mkCmp("<=", mkInt(0), lo), mkCmp("<=", lo, hi), mkCmp("<=", hi, mx), mkCmp("<=", mx, s.Cap))
		if x.safety {
			x.oblige(st, "slice", x.instrLabel(in, "slice"), bound, "slice bounds 0 <= lo <= hi <= cap", in.Pos())
		}
		x.assume(bound)
		return &SliceV{s.Arr, mkAdd(s.Off, lo), mkSub(hi, lo), mkSub(mx, lo)}
	case *types.Basic: // string
		s := x.val(st, in.X).(*Term)
		ln := ufApp(ufSlen, s)
		if in.High != nil {
			hi = x.val(st, in.High).(*Term)
		} else {
			hi = ln
		}
		bound := mkAnd(mkCmp("<=", mkInt(0), lo), mkCmp("<=", lo, hi), mkCmp("<=", hi, ln))
		if x.safety {
			x.oblige(st, "slice", x.instrLabel(in, "slice"), bound, "string slice bounds 0 <= lo <= hi <= len", in.Pos())
		}
		x.assume(bound)
		r := ufApp(&UF{"ssub", []Sort{SStr, SInt, SInt}, SStr}, s, lo, hi)
		x.assume(mkEq(ufApp(ufSlen, r), mkSub(hi, lo)))
		x.assume(mkImplies(mkAnd(mkEq(lo, mkInt(0)), mkEq(hi, ln)), mkEq(r, s)))
		return r
	case *types.Pointer: // *[N]T
		at := xt.Elem().Underlying().(*types.Array)
		p := x.ptr(st, in.X)
		n := mkInt(at.Len())
		if in.High != nil {
			hi = x.val(st, in.High).(*Term)
		} else {
			hi = n
		}
		return &SliceV{x.refOf(st, p), lo, mkSub(hi, lo), mkSub(n, lo)}
	}
	panic("slice of " + in.X.Type().String())
}

func (x *Exec) bytesContent(st *State, m memView, s *SliceV) *Term {
	bt := types.Typ[types.Uint8]
	h := m.getHeap(elemHeapName(bt, ""), arrSort(SInt, arrSort(SInt, SInt)))
	return mkSelect(h, s.Arr)
}

var ufSRune = &UF{"srune", []Sort{SStr, SInt}, SInt}
var ufSRuneLen = &UF{"srunelen", []Sort{SStr}, SInt}
var ufSRuneSub = &UF{"srunesub", []Sort{SStr, SInt, SInt}, SStr}
var ufStrOfRunes = &UF{"str_of_runes", []Sort{arrSort(SInt, SInt), SInt, SInt}, SStr}
var ufStrOfBytes = &UF{"str_of_bytes", []Sort{arrSort(SInt, SInt), SInt, SInt}, SStr}

func (x *Exec) doConvert(st *State, in *ssa.Convert) Value {
	v := x.val(st, in.X)
	from, to := in.X.Type().Underlying(), in.Type().Underlying()
	fb, fok := from.(*types.Basic)
	tb, tok := to.(*types.Basic)
	switch {
	case fok && tok && scalarSort(from) == SInt && scalarSort(to) == SInt:
		t := v.(*Term)
		rg := intRange(tb)
		if rg == nil {
			return t
		}
		frg := intRange(fb)
		if frg != nil && bigLE(rg[0], frg[0]) && bigLE(frg[1], rg[1]) {
			return t // widening
		}
		inRange := mkAnd(mkCmp("<=", mkIntStr(rg[0]), t), mkCmp("<=", t, mkIntStr(rg[1])))
		if x.spec != nil && x.spec.Overflow {
			x.oblige(st, "overflow", x.instrLabel(in, "convert"), inRange, "integer conversion preserves the value", in.Pos())
			x.assume(inRange)
			return t
		}
		r := x.fresh("conv", SInt)
		x.assume(mkImplies(inRange, mkEq(r, t)))
		x.typeFacts(st, r, in.Type())
		return r
	case fok && tok && scalarSort(from) == SStr && scalarSort(to) == SStr:
		return v
	case tok && scalarSort(to) == SStr:
		if s, ok := v.(*SliceV); ok { // string([]byte) / string([]rune)
			if el, ok := from.(*types.Slice); ok && scalarSort(el.Elem()) == SInt {
				if b, ok := el.Elem().Underlying().(*types.Basic); ok && b.Kind() == types.Uint8 {
					r := ufApp(ufStrOfBytes, x.bytesContent(st, st, s), s.Off, s.Len)
					x.assume(mkEq(ufApp(ufSlen, r), s.Len))
					return r
				}
			}
			if el, ok := from.(*types.Slice); ok && scalarSort(el.Elem()) == SInt {
				// string(runes[off:off+len]): a function of the rune contents; when the array still holds what
				// []rune(s) produced, it is the rune-substring of s.
				h := st.getHeap(elemHeapName(el.Elem(), ""), arrSort(SInt, arrSort(SInt, SInt)))
				content := mkSelect(h, s.Arr)
				r := ufApp(ufStrOfRunes, content, s.Off, s.Len)
				for _, ro := range st.runeOrigins {
					x.assume(mkImplies(mkAnd(mkEq(s.Arr, ro.arr), mkEq(content, ro.content)),
						mkEq(r, ufApp(ufSRuneSub, ro.s, s.Off, mkAdd(s.Off, s.Len)))))
				}
				return r
			}
			r := x.fresh("str_of_runes", SStr)
			return r
		}
		if t, ok := v.(*Term); ok && t.Sort == SInt {
			return ufApp(&UF{"str_of_rune", []Sort{SInt}, SStr}, t)
		}
	case fok && scalarSort(from) == SStr:
		if sl, ok := to.(*types.Slice); ok { // []byte(s) / []rune(s)
			s := v.(*Term)
			arr := x.newRef(st)
			ln := x.fresh("convlen", SInt)
			res := &SliceV{arr, mkInt(0), ln, ln}
			x.assume(mkCmp("<=", mkInt(0), ln))
			if b, ok := sl.Elem().Underlying().(*types.Basic); ok && b.Kind() == types.Uint8 {
				x.assume(mkEq(ln, ufApp(ufSlen, s)))
				x.assume(mkEq(ufApp(ufStrOfBytes, x.bytesContent(st, st, res), mkInt(0), ln), s))
			} else {
				x.assume(mkEq(ln, ufApp(ufSRuneLen, s)))
				x.assume(mkCmp("<=", ln, ufApp(ufSlen, s)))
				x.assume(mkImplies(mkCmp(">", ufApp(ufSlen, s), mkInt(0)), mkCmp(">", ln, mkInt(0))))
				// []rune(s): element i is the i-th rune of s
				h := st.getHeap(elemHeapName(sl.Elem(), ""), arrSort(SInt, arrSort(SInt, SInt)))
				iq := mkVar("i!rn", SInt)
				x.assume(mkForall([]*Term{iq}, mkImplies(mkAnd(mkCmp("<=", mkInt(0), iq), mkCmp("<", iq, ln)),
					mkEq(mkSelect(mkSelect(h, arr), iq), ufApp(ufSRune, s, iq)))))
				x.assume(mkImplies(mkCmp(">", ln, mkInt(0)), mkEq(mkSelect(mkSelect(h, arr), mkInt(0)), ufApp(ufSRune, s, mkInt(0)))))
				st.runeOrigins = append(st.runeOrigins[:len(st.runeOrigins):len(st.runeOrigins)], runeOrigin{arr, mkSelect(h, arr), s})
			}
			return res
		}
	case fok && tok && scalarSort(to) == SFlt && scalarSort(from) == SInt:
		return ufApp(&UF{"flt_of_int", []Sort{SInt}, SFlt}, v.(*Term))
	case fok && tok && scalarSort(to) == SInt && scalarSort(from) == SFlt:
		r := ufApp(&UF{"int_of_flt", []Sort{SFlt}, SInt}, v.(*Term))
		x.typeFacts(st, r, in.Type())
		return r
	case fok && tok && scalarSort(to) == SFlt && scalarSort(from) == SFlt:
		return v
	}
	if _, ok := to.(*types.Pointer); ok {
		x.note("abstracted: unsafe/pointer conversion in %s", funcKey(in.Parent()))
	}
	return x.freshValue("convert", in.Type())
}

func bigLE(a, b string) bool {
	// compare decimal integers given as strings (possibly negative)
	neg := func(s string) bool { return len(s) > 0 && s[0] == '-' }
	switch {
	case neg(a) && !neg(b):
		return true
	case !neg(a) && neg(b):
		return false
	case neg(a) && neg(b):
		return bigLE(b[1:], a[1:])
	}
	if len(a) != len(b) {
		return len(a) < len(b)
	}
	return a <= b
}

// jump moves the top frame to block b, cutting at loop headers.
func (x *Exec) jump(st *State, b *ssa.BasicBlock) (forks []*State, done bool) {
	fr := st.frame()
	li := x.loopsOf(fr.fn)
	if k, isHeader := li.ordinal[b]; isHeader && x.boundedLoop(fr, k) {
		// bounded mode: unroll; cut the path once the bound is exceeded (reported as bounded, never as proved)
		key := fmt.Sprintf("unroll:%d:%d", len(st.frames), b.Index)
		n := 0
		if v, ok := st.heap[key]; ok {
			n64, _ := isLitInt(v)
			n = int(n64)
		}
		if n > x.boundK() {
			x.cuts++
			st.dead = true
			return nil, true
		}
		st.heap[key] = mkInt(int64(n + 1))
	} else if isHeader {
		if fr.entered[b] {
			// back edge: invariant preserved, variant decreased; path ends
			x.loopBackEdge(st, fr, b, k)
			st.dead = true
			return nil, true
		}
		x.loopEntry(st, fr, b, k)
		if st.dead {
			return nil, true
		}
	}
	// leaving a loop body: forget that we are inside (so that a later re-entry of an outer iteration is treated as entry)
	for h := range fr.entered {
		if !li.body[h][b] {
			delete(fr.entered, h)
		}
	}
	fr.prev = fr.block
	fr.block = b
	fr.idx = 0
	st.trail = append(st.trail, fmt.Sprintf("%d", b.Index))
	return nil, false
}

func (x *Exec) boundK() int {
	if x.spec != nil {
		return x.spec.BoundK
	}
	return 0
}

// boundedLoop: in bounded mode a loop without an invariant is unrolled instead of cut.
func (x *Exec) boundedLoop(fr *Frame, k int) bool {
	if x.boundK() == 0 {
		return false
	}
	ls, _ := x.loopSpecFor(fr.fn, k)
	return ls == nil
}

// localStructOK: a local struct variable whose address is only used to read/write it or its fields can be kept by value
// (no heap object), so that copying a slice element into it does not touch the heap the element lives in.
func localStructOK(a *ssa.Alloc) bool {
	var ok func(v ssa.Value, depth int) bool
	ok = func(v ssa.Value, depth int) bool {
		refs := v.Referrers()
		if refs == nil || depth > 6 {
			return false
		}
		for _, r := range *refs {
			switch r := r.(type) {
			case *ssa.UnOp:
				if r.X != v {
					return false
				}
			case *ssa.Store:
				if r.Addr != v {
					return false // the address itself is stored somewhere
				}
			case *ssa.FieldAddr:
				if r.X != v || !ok(r, depth+1) {
					return false
				}
			case *ssa.DebugRef:
			default:
				return false
			}
		}
		return true
	}
	return ok(a, 0)
}
