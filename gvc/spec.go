package main

import (
	"fmt"
	"os"
	"path/filepath"
	"strings"
	"unicode"
	"unicode/utf8"
)

// ---------------------------------------------------------------- AST of the contract language

type Expr interface{}

type (
	EIdent  struct{ Name string }
	EInt    struct{ V string }
	EStr    struct{ V string }
	EBool   struct{ V bool }
	ENil    struct{}
	ESel    struct{ X Expr; Name string }
	EIndex  struct{ X, I Expr }
	ESlice  struct{ X, Lo, Hi Expr }
	ECall   struct{ Fn string; Args []Expr; TypeArgs []string }
	EUnary  struct{ Op string; X Expr }
	EBinary struct{ Op string; X, Y Expr }
	ECond   struct{ C, A, B Expr }
	EQuant  struct {
		Forall bool
		Vars   []Param
		Pats   []Expr // optional instantiation patterns: forall i int {r.linesBuf[i].recordNum} :: ...
		Body   Expr
	}
	EAssert struct{ X Expr; T string } // x.(T)
	EOld    struct{ X Expr }
)

type Param struct {
	Name string
	Type string // Go type text, resolved in the contract's package
}

type Clause struct {
	Label string
	E     Expr
	Src   string
}

// Loc is one entry of a modifies/reads clause.
type Loc struct {
	Base  Expr   // expr.Field
	Field string // field name (with Base) ;
	Type  string // Type.Field : that field of every object
	All   bool   // *
	Ghost string // ghost function name: whole ghost map
	Elems Expr   // elems(slice)
	Footprint bool // everything the callee's in-repo reach may write (computed on SSA, see frame.go)
	Cell  Expr   // cell(ptr): the variable a pointer points to
	When  string // `<loc> when <boolParam>`: the location is written only in calls where that boolean parameter is true
	Src   string
}

type LoopSpec struct {
	Invariants []Clause
	Decreases  Expr
	Modifies   []Loc
	HasMod     bool
}

type FuncSpec struct {
	Kind        string // func | extern | iface
	Ref         string
	Params      []Param // extern/iface: names for the arguments (receiver first for extern methods)
	ResultNames []string
	Requires    []Clause
	Ensures     []Clause
	Modifies    []Loc
	HasMod      bool
	Pure        bool
	Inline      bool
	Trusted     string
	Panics      []Clause
	Decreases   Expr
	Measure     []Clause // function-level `decreases e1, e2, ...`: lexicographic recursion variant, checked at calls between functions that both have one
	Assumes     []Clause // `assumes label: e`: assumed at entry, NOT checked at call sites (reported as an assumption)
	Loops       map[int]*LoopSpec
	Nilable     map[string]bool
	Overflow    bool
	NoSafety    bool
	File        string
	PkgPath     string // package the contract is resolved in
	Fresh       []string // result names that are freshly allocated (extern)
	GhostSets   []GhostSet // ghost updates executed at every return, before the postconditions are checked
	BoundK      int        // bounded mode: loops without invariant unrolled BoundK times (0 = unbounded proof)
	BoundD      int        // bounded mode: self-recursion inlined to this depth
	InitPkgs    []string        // `initstate <pkg>`: verify in the state right after that package's initialiser has run
	CallAsserts []CallAssert    // caller-side assertions at a particular call site: `atcall <callee> <n>: expr`
	UpdAsserts  []Clause        // `atupdate label: expr`: asserted at every map update executed in the function or in a closure defined in it
	BoundAssume []Clause        // assumed at entry only when this function is itself checked in bounded mode (states the shape bound)
	Unknown     map[string]bool // package-level variables whose (constant) initial value must not be used: both settings are verified
}

type CallAssert struct {
	Callee string // suffix of the callee's name
	Ord    int    // n-th call of that callee executed on the path (1-based); 0: every call
	C      Clause
}

type GhostSet struct {
	Ghost string
	Arg   Expr
	Arg2  Expr
	Val   Expr
	Src   string
}

type PredSpec struct {
	Name    string
	Params  []Param
	Body    Expr
	PkgPath string
}
type SpecFn struct {
	Name      string
	Params    []Param
	Ret       string
	Body      Expr // nil => uninterpreted
	Decreases Expr
	Reads     []string // Type.field heaps the body reads (heap-dependent spec function)
	Recursive bool
	PkgPath   string
}
type GhostSpec struct {
	Name    string
	Params  []Param
	Ret     string
	PkgPath string
	// InitZero: a newly allocated object starts with the zero ghost value (`ghost g(x T) U initzero`)
	InitZero bool
}
type LemmaSpec struct {
	Name     string
	Params   []Param
	Requires []Clause
	Ensures  []Clause
	PkgPath  string
	File     string
}
type AxiomSpec struct {
	Name    string
	Params  []Param
	Body    Expr
	PkgPath string
	File    string
}

// FrameSpec is a whole-program frame obligation decided by SSA footprint analysis (frame.go).
type FrameSpec struct {
	Name       string
	Roots      []string   // function keys; empty: every in-repo function
	WritesOnly []FrameRule
	ReadsOnly  []FrameRule
	NoWrite    []string   // types none of whose fields may be stored to (except into objects allocated by the storing function)
	NoGlobalStore bool
	GlobalsExcept []string
	NoCall     []FrameRule // Fields = callee names (ssa String()), Funcs = functions allowed to call them
	NoDirectRead []string  // interface types whose Read method must not be invoked by in-repo code in the reach set
	MapRangeOnly []string  // functions allowed to range over a map
	HasMapRange  bool
	MapWritesOnly []FrameRule // Fields = map type texts, Funcs = functions allowed to update/delete entries of maps of that type
	GlobalReadsOnly []string // in-repo package-level variables of reference type (map, slice, pointer, chan, func, interface) that may be read
	HasGlobalReads  bool
	GlobalAddrOnly []string // callee name prefixes that may receive the address of a package-level variable
	PkgPath    string
	File       string
	Src        string
}
type FrameRule struct {
	Fields []string
	Funcs  []string
}

type Specs struct {
	Frames  map[string]*FrameSpec
	Funcs   map[string]*FuncSpec // by Kind+":"+Ref-resolved key
	Preds   map[string]*PredSpec
	SpecFns map[string]*SpecFn
	Ghosts  map[string]*GhostSpec
	Lemmas  []*LemmaSpec
	Axioms  []*AxiomSpec
	Files   []string
	Assumed []string // every trusted / extern / axiom item, for the evidence
}

// ---------------------------------------------------------------- lexer

type tok struct {
	k   string // id, int, str, op, eof
	s   string
	pos int
}

func lex(src string) ([]tok, error) {
	var out []tok
	i := 0
	for i < len(src) {
		c := src[i]
		switch {
		case c == ' ' || c == '\t' || c == '\n' || c == '\r':
			i++
		case c == '/' && i+1 < len(src) && src[i+1] == '/':
			for i < len(src) && src[i] != '\n' {
				i++
			}
		case unicode.IsLetter(rune(c)) || c == '_':
			j := i
			for j < len(src) && (unicode.IsLetter(rune(src[j])) || unicode.IsDigit(rune(src[j])) || src[j] == '_') {
				j++
			}
			out = append(out, tok{"id", src[i:j], i})
			i = j
		case unicode.IsDigit(rune(c)):
			j := i
			for j < len(src) && (unicode.IsDigit(rune(src[j])) || src[j] == '_') {
				j++
			}
			out = append(out, tok{"int", strings.ReplaceAll(src[i:j], "_", ""), i})
			i = j
		case c == '\'': // rune literal: 'x', '\'', '\\', '\n', '\t', '\r'
			j := i + 1
			var r rune
			if j < len(src) && src[j] == '\\' && j+1 < len(src) {
				switch src[j+1] {
				case 'n':
					r = '\n'
				case 't':
					r = '\t'
				case 'r':
					r = '\r'
				default:
					r = rune(src[j+1])
				}
				j += 2
			} else {
				rr, sz := utf8.DecodeRuneInString(src[j:])
				r = rr
				j += sz
			}
			if j >= len(src) || src[j] != '\'' {
				return nil, fmt.Errorf("bad rune literal at %d", i)
			}
			out = append(out, tok{"int", fmt.Sprint(int(r)), i})
			i = j + 1
		case c == '"':
			j := i + 1
			for j < len(src) && src[j] != '"' {
				if src[j] == '\\' {
					j++
				}
				j++
			}
			if j >= len(src) {
				return nil, fmt.Errorf("unterminated string at %d", i)
			}
			out = append(out, tok{"str", src[i+1 : j], i})
			i = j + 1
		default:
			ops := []string{"<==>", "==>", "::", "==", "!=", "<=", ">=", "&&", "||", "++", "(", ")", "[", "]", "{", "}", ",", ".", ":", ";", "?", "!", "-", "+", "*", "/", "%", "<", ">", "=", "|", "&", "@", "$"}
			matched := false
			for _, op := range ops {
				if strings.HasPrefix(src[i:], op) {
					out = append(out, tok{"op", op, i})
					i += len(op)
					matched = true
					break
				}
			}
			if !matched {
				return nil, fmt.Errorf("unexpected character %q at %d", c, i)
			}
		}
	}
	out = append(out, tok{"eof", "", len(src)})
	return out, nil
}

// ---------------------------------------------------------------- parser

type parser struct {
	toks []tok
	p    int
	src  string
	file string
}

var itemKw = map[string]bool{"frame": true, "pred": true, "spec": true, "ghost": true, "lemma": true, "iface": true, "func": true, "extern": true, "axiom": true, "package": true}
var clauseKw = map[string]bool{"requires": true, "ensures": true, "modifies": true, "reads": true, "panics": true, "decreases": true, "assumes": true,
	"checks": true, "inline": true, "trusted": true, "loop": true, "invariant": true, "pure": true, "returns": true, "nilable": true, "params": true, "nosafety": true, "fresh": true, "ghostset": true, "bounded": true, "unknown": true, "boundedassume": true, "atcall": true, "atupdate": true, "initstate": true}

func (p *parser) peek() tok { return p.toks[p.p] }
func (p *parser) next() tok { t := p.toks[p.p]; p.p++; return t }
func (p *parser) isOp(s string) bool {
	t := p.peek()
	return t.k == "op" && t.s == s
}
func (p *parser) isId(s string) bool {
	t := p.peek()
	return t.k == "id" && t.s == s
}
func (p *parser) fail(format string, a ...interface{}) {
	t := p.peek()
	line := 1 + strings.Count(p.src[:min(t.pos, len(p.src))], "\n")
	panic(fmt.Errorf("%s: contract line %d near %q: %s", p.file, line, t.s, fmt.Sprintf(format, a...)))
}
func (p *parser) expectOp(s string) {
	if !p.isOp(s) {
		p.fail("expected %q", s)
	}
	p.next()
}
func (p *parser) ident() string {
	t := p.peek()
	if t.k != "id" {
		p.fail("expected identifier")
	}
	p.next()
	return t.s
}
func (p *parser) atBoundary() bool {
	t := p.peek()
	if t.k == "eof" {
		return true
	}
	return t.k == "id" && (itemKw[t.s] || clauseKw[t.s])
}

// parseType reads a Go type as raw text.
func (p *parser) parseType() string {
	var b strings.Builder
	for {
		t := p.peek()
		switch {
		case t.k == "op" && t.s == "*":
			p.next()
			b.WriteString("*")
			continue
		case t.k == "op" && t.s == "[":
			p.next()
			if p.isOp("]") {
				p.next()
				b.WriteString("[]")
				continue
			}
			p.fail("only slice types [] are supported in contracts")
		case t.k == "id" && t.s == "map":
			p.next()
			p.expectOp("[")
			k := p.parseType()
			p.expectOp("]")
			v := p.parseType()
			b.WriteString("map[" + k + "]" + v)
			return b.String()
		case t.k == "id" && t.s == "interface":
			p.next()
			p.expectOp("{")
			p.expectOp("}")
			b.WriteString("interface{}")
			return b.String()
		case t.k == "id":
			p.next()
			b.WriteString(t.s)
			for p.isOp(".") || p.isOp("/") {
				b.WriteString(p.next().s)
				b.WriteString(p.ident())
			}
			return b.String()
		default:
			p.fail("expected type")
		}
	}
}

func (p *parser) parseParams() []Param {
	var out []Param
	p.expectOp("(")
	for !p.isOp(")") {
		var names []string
		names = append(names, p.ident())
		for p.isOp(",") {
			// lookahead: "a, b T" vs "a T, b U"
			save := p.p
			p.next()
			if p.peek().k == "id" {
				n := p.next()
				if p.isOp(",") || p.peek().k == "id" || p.isOp("*") || p.isOp("[") {
					// could be another name or name+type; decide: if next is ',' it is a name in a list
					if p.isOp(",") {
						names = append(names, n.s)
						continue
					}
					// "n T": belongs to next group -> rewind
				}
			}
			p.p = save
			break
		}
		ty := p.parseType()
		for _, n := range names {
			out = append(out, Param{n, ty})
		}
		if p.isOp(",") {
			p.next()
		}
	}
	p.expectOp(")")
	return out
}

// Pratt expression parser.
var binPrec = map[string]int{"<==>": 1, "==>": 2, "||": 4, "&&": 5, "==": 6, "!=": 6, "<": 6, "<=": 6, ">": 6, ">=": 6, "+": 7, "-": 7, "++": 7, "*": 8, "/": 8, "%": 8}

func (p *parser) parseExpr() Expr { return p.parseTernary() }

func (p *parser) parseTernary() Expr {
	t := p.peek()
	if t.k == "id" && (t.s == "forall" || t.s == "exists") {
		p.next()
		var vars []Param
		for {
			var names []string
			names = append(names, p.ident())
			for p.isOp(",") {
				save := p.p
				p.next()
				if p.peek().k == "id" {
					n := p.next()
					if p.isOp(",") {
						names = append(names, n.s)
						continue
					}
				}
				p.p = save
				break
			}
			ty := p.parseType()
			for _, n := range names {
				vars = append(vars, Param{n, ty})
			}
			if p.isOp(",") {
				p.next()
				continue
			}
			break
		}
		var pats []Expr
		if p.isOp("{") {
			p.next()
			for !p.isOp("}") {
				pats = append(pats, p.parseExpr())
				if p.isOp(",") {
					p.next()
				}
			}
			p.expectOp("}")
		}
		p.expectOp("::")
		body := p.parseExpr()
		return &EQuant{Forall: t.s == "forall", Vars: vars, Pats: pats, Body: body}
	}
	c := p.parseBin(1)
	if p.isOp("?") {
		p.next()
		a := p.parseExpr()
		p.expectOp(":")
		b := p.parseExpr()
		return &ECond{c, a, b}
	}
	return c
}

func (p *parser) parseBin(minPrec int) Expr {
	lhs := p.parseUnary()
	for {
		t := p.peek()
		if t.k != "op" {
			return lhs
		}
		prec, ok := binPrec[t.s]
		if !ok || prec < minPrec {
			return lhs
		}
		p.next()
		var rhs Expr
		if t.s == "==>" || t.s == "<==>" {
			// right associative; allow quantifier on the right
			if p.isId("forall") || p.isId("exists") {
				rhs = p.parseTernary()
			} else {
				rhs = p.parseBin(prec)
			}
		} else {
			rhs = p.parseBin(prec + 1)
		}
		lhs = &EBinary{t.s, lhs, rhs}
	}
}

func (p *parser) parseUnary() Expr {
	if p.isOp("!") {
		p.next()
		return &EUnary{"!", p.parseUnary()}
	}
	if p.isOp("-") {
		p.next()
		return &EUnary{"-", p.parseUnary()}
	}
	if p.isOp("*") {
		p.next()
		return &EUnary{"*", p.parseUnary()}
	}
	return p.parsePostfix(p.parsePrimary())
}

func (p *parser) parsePrimary() Expr {
	t := p.next()
	switch t.k {
	case "int":
		return &EInt{t.s}
	case "str":
		return &EStr{t.s}
	case "id":
		switch t.s {
		case "true":
			return &EBool{true}
		case "false":
			return &EBool{false}
		case "nil":
			return &ENil{}
		case "old":
			p.expectOp("(")
			e := p.parseExpr()
			p.expectOp(")")
			return &EOld{e}
		case "addrof":
			p.expectOp("(")
			name := p.ident()
			for p.isOp(".") || p.isOp("/") {
				name += p.next().s
				name += p.ident()
			}
			p.expectOp(")")
			return &ECall{Fn: "addrof", TypeArgs: []string{name}}
		case "typeis", "zero", "cast", "unchangedElems":
			// typeis(e, T) ; zero(T) ; cast(e, T) ; unchangedElems(T)
			p.expectOp("(")
			var args []Expr
			if t.s != "zero" && t.s != "unchangedElems" {
				args = append(args, p.parseExpr())
				p.expectOp(",")
			}
			ty := p.parseType()
			p.expectOp(")")
			return &ECall{Fn: t.s, Args: args, TypeArgs: []string{ty}}
		case "forall", "exists":
			p.p--
			return p.parseTernary()
		}
		return &EIdent{t.s}
	case "op":
		if t.s == "(" {
			e := p.parseExpr()
			p.expectOp(")")
			return e
		}
	}
	p.p--
	p.fail("unexpected token in expression")
	return nil
}

func (p *parser) parsePostfix(e Expr) Expr {
	for {
		switch {
		case p.isOp("."):
			p.next()
			if p.isOp("(") {
				p.next()
				ty := p.parseType()
				p.expectOp(")")
				e = &EAssert{e, ty}
				continue
			}
			e = &ESel{e, p.ident()}
		case p.isOp("["):
			p.next()
			if p.isOp(":") {
				p.next()
				var hi Expr
				if !p.isOp("]") {
					hi = p.parseExpr()
				}
				p.expectOp("]")
				e = &ESlice{e, nil, hi}
				continue
			}
			i := p.parseExpr()
			if p.isOp(":") {
				p.next()
				var hi Expr
				if !p.isOp("]") {
					hi = p.parseExpr()
				}
				p.expectOp("]")
				e = &ESlice{e, i, hi}
				continue
			}
			p.expectOp("]")
			e = &EIndex{e, i}
		case p.isOp("("):
			// call: only on identifiers / selector chains (pkg.Func)
			name := exprName(e)
			if name == "" {
				p.fail("call of non-name")
			}
			p.next()
			var args []Expr
			for !p.isOp(")") {
				args = append(args, p.parseExpr())
				if p.isOp(",") {
					p.next()
				}
			}
			p.expectOp(")")
			e = &ECall{Fn: name, Args: args}
		default:
			return e
		}
	}
}

func exprName(e Expr) string {
	switch e := e.(type) {
	case *EIdent:
		return e.Name
	case *ESel:
		if b := exprName(e.X); b != "" {
			return b + "." + e.Name
		}
	}
	return ""
}

func (p *parser) srcBetween(a, b int) string {
	if a >= len(p.toks) || b > len(p.toks) || a >= b {
		return ""
	}
	end := p.toks[b-1].pos + len(p.toks[b-1].s)
	if p.toks[b-1].k == "str" {
		end += 2
	}
	s := p.src[p.toks[a].pos:min(end, len(p.src))]
	return strings.Join(strings.Fields(s), " ")
}

func (p *parser) parseClause() Clause {
	label := ""
	if p.peek().k == "id" && p.toks[p.p+1].k == "op" && p.toks[p.p+1].s == ":" && !(p.toks[p.p+2].k == "op" && p.toks[p.p+2].s == ":") {
		label = p.next().s
		p.next()
	}
	a := p.p
	e := p.parseExpr()
	return Clause{Label: label, E: e, Src: p.srcBetween(a, p.p)}
}

func (p *parser) parseLocs() []Loc {
	var out []Loc
	for {
		a := p.p
		var l Loc
		switch {
		case p.isOp("*"):
			p.next()
			l.All = true
		case p.isId("nothing"):
			p.next()
			return out
		case p.isId("footprint"):
			p.next()
			l.Footprint = true
		case p.isId("cell"):
			p.next()
			p.expectOp("(")
			l.Cell = p.parseExpr()
			p.expectOp(")")
		case p.isId("elems"):
			p.next()
			p.expectOp("(")
			l.Elems = p.parseExpr()
			p.expectOp(")")
		case p.isId("ghost"):
			p.next()
			l.Ghost = p.ident()
		case p.isId("type"):
			// type T.f : the field f of every T
			p.next()
			ty := p.parseType()
			i := strings.LastIndex(ty, ".")
			if i < 0 {
				p.fail("expected Type.field")
			}
			l.Type, l.Field = ty[:i], ty[i+1:]
		default:
			e := p.parsePostfix(p.parsePrimary())
			s, ok := e.(*ESel)
			if !ok {
				p.fail("modifies entry must be expr.field, type T.f, elems(s), ghost g or *")
			}
			l.Base, l.Field = s.X, s.Name
		}
		if p.isId("when") {
			p.next()
			l.When = p.ident()
		}
		l.Src = p.srcBetween(a, p.p)
		out = append(out, l)
		if p.isOp(",") {
			p.next()
			continue
		}
		return out
	}
}

// parseFuncRef reads a function reference as raw text up to the next clause/item keyword or '(' at depth 0 following a name.
func (p *parser) parseFuncRef() string {
	var b strings.Builder
	depth := 0
	for {
		t := p.peek()
		if t.k == "eof" {
			break
		}
		if depth == 0 && t.k == "id" && (clauseKw[t.s] || itemKw[t.s]) && b.Len() > 0 {
			break
		}
		if t.k == "op" && t.s == "(" {
			if depth == 0 && b.Len() > 0 && !strings.HasSuffix(b.String(), "(") && !strings.HasSuffix(b.String(), ".") {
				break // parameter list begins
			}
			depth++
		}
		if t.k == "op" && t.s == ")" {
			depth--
		}
		b.WriteString(t.s)
		p.next()
	}
	return b.String()
}

// parseFuncRef2 reads a dotted/slashed name (function key, Type.field, pkg/path.Name) as raw text.
func (p *parser) parseFuncRef2() string {
	var b strings.Builder
	if p.isOp("(") || p.isOp("*") {
		// (*pkg.T).M form
		depth := 0
		for {
			t := p.next()
			b.WriteString(t.s)
			if t.s == "(" {
				depth++
			}
			if t.s == ")" {
				depth--
				if depth == 0 {
					break
				}
			}
		}
	} else {
		b.WriteString(p.ident())
	}
	for p.isOp(".") || p.isOp("/") || p.isOp("$") || p.isOp("-") {
		b.WriteString(p.next().s)
		t := p.next()
		b.WriteString(t.s)
	}
	return b.String()
}

func parseSpecText(file, pkgPath, src string, sp *Specs) (err error) {
	defer func() {
		if r := recover(); r != nil {
			if e, ok := r.(error); ok {
				err = e
				return
			}
			panic(r)
		}
	}()
	toks, lerr := lex(src)
	if lerr != nil {
		return fmt.Errorf("%s: %v", file, lerr)
	}
	p := &parser{toks: toks, src: src, file: file}
	for p.peek().k != "eof" {
		kw := p.ident()
		switch kw {
		case "package":
			pkgPath = p.parseFuncRef()
		case "pred":
			name := p.ident()
			params := p.parseParams()
			p.expectOp("=")
			body := p.parseExpr()
			if old, dup := sp.Preds[name]; dup {
				p.fail("predicate %q is already defined (in package %s)", name, old.PkgPath)
			}
			if _, dup := sp.SpecFns[name]; dup {
				p.fail("%q is already defined as a spec function", name)
			}
			sp.Preds[name] = &PredSpec{name, params, body, pkgPath}
		case "spec":
			name := p.ident()
			params := p.parseParams()
			ret := p.parseType()
			f := &SpecFn{Name: name, Params: params, Ret: ret, PkgPath: pkgPath}
			for p.isId("reads") || p.isId("decreases") || p.isId("recursive") {
				switch p.next().s {
				case "reads":
					f.Reads = append(f.Reads, p.parseType())
					for p.isOp(",") {
						p.next()
						f.Reads = append(f.Reads, p.parseType())
					}
				case "decreases":
					f.Decreases = p.parseExpr()
				case "recursive":
					f.Recursive = true
				}
			}
			if p.isOp("=") {
				p.next()
				f.Body = p.parseExpr()
			}
			if old, dup := sp.SpecFns[name]; dup {
				p.fail("spec function %q is already defined (in package %s); names of spec functions, predicates and ghosts are global", name, old.PkgPath)
			}
			if old, dup := sp.Preds[name]; dup {
				p.fail("%q is already defined as a predicate (in package %s)", name, old.PkgPath)
			}
			if _, dup := sp.Ghosts[name]; dup {
				p.fail("%q is already defined as a ghost", name)
			}
			sp.SpecFns[name] = f
		case "ghost":
			name := p.ident()
			params := p.parseParams()
			ret := p.parseType()
			g := &GhostSpec{Name: name, Params: params, Ret: ret, PkgPath: pkgPath}
			if p.isId("initzero") {
				p.next()
				g.InitZero = true
			}
			if old, dup := sp.Ghosts[name]; dup {
				p.fail("ghost %q is already defined (in package %s)", name, old.PkgPath)
			}
			if _, dup := sp.SpecFns[name]; dup {
				p.fail("%q is already defined as a spec function", name)
			}
			if _, dup := sp.Preds[name]; dup {
				p.fail("%q is already defined as a predicate", name)
			}
			sp.Ghosts[name] = g
		case "axiom":
			name := p.ident()
			var params []Param
			if p.isOp("(") {
				params = p.parseParams()
			}
			p.expectOp("=")
			body := p.parseExpr()
			sp.Axioms = append(sp.Axioms, &AxiomSpec{name, params, body, pkgPath, file})
			sp.Assumed = append(sp.Assumed, "axiom "+name+" ("+filepath.Base(file)+")")
		case "lemma":
			l := &LemmaSpec{Name: p.ident(), PkgPath: pkgPath, File: file}
			l.Params = p.parseParams()
			for p.isId("requires") || p.isId("ensures") {
				k := p.next().s
				c := p.parseClause()
				if k == "requires" {
					l.Requires = append(l.Requires, c)
				} else {
					l.Ensures = append(l.Ensures, c)
				}
			}
			sp.Lemmas = append(sp.Lemmas, l)
		case "frame":
			fs := &FrameSpec{Name: p.ident(), PkgPath: pkgPath, File: file}
			readList := func() []string {
				var out []string
				for {
					out = append(out, p.parseFuncRef2())
					if p.isOp(",") {
						p.next()
						continue
					}
					return out
				}
			}
			for p.peek().k == "id" && !itemKw[p.peek().s] {
				switch c := p.next().s; c {
				case "roots":
					fs.Roots = append(fs.Roots, readList()...)
				case "mapwritesonly":
					r := FrameRule{}
					r.Fields = append(r.Fields, p.parseType())
					if p.isId("in") {
						p.next()
						r.Funcs = readList()
					}
					fs.MapWritesOnly = append(fs.MapWritesOnly, r)
				case "writesonly", "readsonly", "nocall":
					r := FrameRule{Fields: readList()}
					if p.isId("in") {
						p.next()
						r.Funcs = readList()
					}
					switch c {
					case "writesonly":
						fs.WritesOnly = append(fs.WritesOnly, r)
					case "readsonly":
						fs.ReadsOnly = append(fs.ReadsOnly, r)
					default:
						fs.NoCall = append(fs.NoCall, r)
					}
				case "nowrite":
					fs.NoWrite = append(fs.NoWrite, readList()...)
				case "noglobalstore":
					fs.NoGlobalStore = true
					if p.isId("except") {
						p.next()
						fs.GlobalsExcept = readList()
					}
				case "nodirectread":
					fs.NoDirectRead = append(fs.NoDirectRead, readList()...)
				case "maprangeonly":
					fs.HasMapRange = true
					if p.isId("in") {
						p.next()
					}
					fs.MapRangeOnly = append(fs.MapRangeOnly, readList()...)
				case "globalreadsonly":
					fs.HasGlobalReads = true
					fs.GlobalReadsOnly = append(fs.GlobalReadsOnly, readList()...)
				case "globaladdronly":
					fs.GlobalAddrOnly = append(fs.GlobalAddrOnly, readList()...)
				default:
					p.p--
					p.fail("unknown frame clause %q", c)
				}
			}
			sp.Frames[fs.Name] = fs
		case "func", "extern", "iface":
			f := &FuncSpec{Kind: kw, Loops: map[int]*LoopSpec{}, Nilable: map[string]bool{}, File: file, PkgPath: pkgPath}
			f.Ref = p.parseFuncRef()
			if p.isOp("(") {
				f.Params = p.parseParams()
			}
			var curLoop *LoopSpec
			for p.peek().k == "id" && clauseKw[p.peek().s] {
				c := p.next().s
				switch c {
				case "params":
					f.Params = p.parseParams()
				case "returns":
					p.expectOp("(")
					for !p.isOp(")") {
						f.ResultNames = append(f.ResultNames, p.ident())
						if p.isOp(",") {
							p.next()
						}
					}
					p.expectOp(")")
				case "requires":
					f.Requires = append(f.Requires, p.parseClause())
				case "ensures":
					f.Ensures = append(f.Ensures, p.parseClause())
				case "panics":
					if p.isId("when") {
						p.next()
					}
					f.Panics = append(f.Panics, p.parseClause())
				case "modifies":
					locs := p.parseLocs()
					if curLoop != nil {
						curLoop.Modifies = append(curLoop.Modifies, locs...)
						curLoop.HasMod = true
					} else {
						f.Modifies = append(f.Modifies, locs...)
						f.HasMod = true
					}
				case "reads":
					p.parseLocs()
				case "pure":
					f.Pure = true
					f.HasMod = true
				case "inline":
					f.Inline = true
				case "nosafety":
					f.NoSafety = true
				case "boundedassume":
					f.BoundAssume = append(f.BoundAssume, p.parseClause())
				case "initstate":
					f.InitPkgs = append(f.InitPkgs, p.parseFuncRef2())
				case "atcall":
					ca := CallAssert{Callee: p.parseFuncRef2()}
					if p.peek().k == "int" {
						fmt.Sscanf(p.next().s, "%d", &ca.Ord)
					}
					p.expectOp(":")
					ca.C = p.parseClause()
					f.CallAsserts = append(f.CallAsserts, ca)
				case "atupdate":
					f.UpdAsserts = append(f.UpdAsserts, p.parseClause())
				case "unknown":
					if f.Unknown == nil {
						f.Unknown = map[string]bool{}
					}
					f.Unknown[p.ident()] = true
				case "bounded":
					// bounded k d
					t := p.next()
					fmt.Sscanf(t.s, "%d", &f.BoundK)
					if p.peek().k == "int" {
						fmt.Sscanf(p.next().s, "%d", &f.BoundD)
					}
				case "ghostset":
					a := p.p
					g := p.ident()
					p.expectOp("(")
					arg := p.parseExpr()
					var arg2 Expr
					if p.isOp(",") {
						p.next()
						arg2 = p.parseExpr()
					}
					p.expectOp(")")
					p.expectOp("=")
					val := p.parseExpr()
					f.GhostSets = append(f.GhostSets, GhostSet{g, arg, arg2, val, p.srcBetween(a, p.p)})
				case "trusted":
					t := p.next()
					f.Trusted = t.s
				case "fresh":
					f.Fresh = append(f.Fresh, p.ident())
					for p.isOp(",") {
						p.next()
						f.Fresh = append(f.Fresh, p.ident())
					}
				case "checks":
					if p.ident() != "overflow" {
						p.fail("expected 'checks overflow'")
					}
					f.Overflow = true
				case "nilable":
					f.Nilable[p.ident()] = true
					for p.isOp(",") {
						p.next()
						f.Nilable[p.ident()] = true
					}
				case "decreases":
					a := p.p
					e := p.parseExpr()
					if curLoop != nil {
						curLoop.Decreases = e
					} else {
						f.Decreases = e
						f.Measure = append(f.Measure, Clause{E: e, Src: p.srcBetween(a, p.p)})
						for p.isOp(",") {
							p.next()
							a = p.p
							e = p.parseExpr()
							f.Measure = append(f.Measure, Clause{E: e, Src: p.srcBetween(a, p.p)})
						}
					}
				case "assumes":
					f.Assumes = append(f.Assumes, p.parseClause())
				case "loop":
					t := p.next()
					if t.k != "int" {
						p.fail("expected loop ordinal")
					}
					var k int
					fmt.Sscanf(t.s, "%d", &k)
					p.expectOp(":")
					if existing, ok := f.Loops[k]; ok {
						curLoop = existing
					} else {
						curLoop = &LoopSpec{}
						f.Loops[k] = curLoop
					}
				case "invariant":
					if curLoop == nil {
						p.fail("invariant outside loop")
					}
					curLoop.Invariants = append(curLoop.Invariants, p.parseClause())
				}
			}
			key := kw + ":" + f.Ref
			if kw == "func" {
				key = kw + ":" + pkgPath + ":" + f.Ref
			}
			if _, dup := sp.Funcs[key]; dup {
				p.fail("duplicate contract for %s", f.Ref)
			}
			sp.Funcs[key] = f
			if kw == "extern" || (kw == "iface") {
				sp.Assumed = append(sp.Assumed, kw+" "+f.Ref+" ("+filepath.Base(file)+")")
			}
			if f.Trusted != "" {
				sp.Assumed = append(sp.Assumed, "trusted "+f.Ref+": "+f.Trusted)
			}
		default:
			p.p--
			p.fail("unknown item keyword %q", kw)
		}
	}
	return nil
}

func newSpecs() *Specs {
	return &Specs{Frames: map[string]*FrameSpec{}, Funcs: map[string]*FuncSpec{}, Preds: map[string]*PredSpec{}, SpecFns: map[string]*SpecFn{}, Ghosts: map[string]*GhostSpec{}}
}

// loadSpecs reads //@ comments from every verif_contracts.go under the repository, and every *.gvc under externDir.
func loadSpecs(w *World, externDir string) (*Specs, error) {
	sp := newSpecs()
	for path, pkg := range w.ByPath {
		if !inRepo(path) {
			continue
		}
		for _, f := range pkg.GoFiles {
			if filepath.Base(f) != "verif_contracts.go" {
				continue
			}
			data, err := os.ReadFile(f)
			if err != nil {
				return nil, err
			}
			var b strings.Builder
			for _, line := range strings.Split(string(data), "\n") {
				t := strings.TrimSpace(line)
				if strings.HasPrefix(t, "//@") {
					b.WriteString(strings.TrimPrefix(t, "//@"))
				} else if strings.HasPrefix(t, "// @") { // gofmt-mangled form
					b.WriteString(strings.TrimPrefix(t, "// @"))
				}
				b.WriteString("\n")
			}
			if err := parseSpecText(f, path, b.String(), sp); err != nil {
				return nil, err
			}
			sp.Files = append(sp.Files, f)
		}
	}
	files, _ := filepath.Glob(filepath.Join(externDir, "*.gvc"))
	for _, f := range files {
		data, err := os.ReadFile(f)
		if err != nil {
			return nil, err
		}
		if err := parseSpecText(f, "", string(data), sp); err != nil {
			return nil, err
		}
		sp.Files = append(sp.Files, f)
	}
	if err := normalizeIfaceKeys(w, sp); err != nil {
		return nil, err
	}
	return sp, nil
}
