package main

import (
	"os"
	"fmt"
	"go/token"
	"go/types"
	"strings"

	"golang.org/x/tools/go/ssa"
)

// contractFor finds the contract of a static callee.
func (x *Exec) contractFor(fn *ssa.Function) *FuncSpec {
	if fn == nil {
		return nil
	}
	return x.sp.lookupFunc(fn)
}

func (sp *Specs) lookupFunc(fn *ssa.Function) *FuncSpec {
	key := funcKey(fn)
	// in-repo contract: Ref is "<Recv>.<Name>" or "<Name>" resolved in its package
	pkg := ""
	if fn.Pkg != nil {
		pkg = fn.Pkg.Pkg.Path()
	} else if fn.Object() != nil && fn.Object().Pkg() != nil {
		pkg = fn.Object().Pkg().Path()
	}
	short := strings.TrimPrefix(key, shortPkg(pkg)+".")
	if f, ok := sp.Funcs["func:"+pkg+":"+short]; ok {
		return f
	}
	for _, kind := range []string{"extern"} {
		if f, ok := sp.Funcs[kind+":"+short]; ok && f.PkgPath == pkg {
			return f
		}
		if f, ok := sp.Funcs[kind+":"+key]; ok {
			return f
		}
		if f, ok := sp.Funcs[kind+":"+pkg+"."+short]; ok {
			return f
		}
	}
	return nil
}

func (sp *Specs) lookupIface(recv types.Type, method string) *FuncSpec {
	n := typeName(recv)
	if f, ok := sp.Funcs["iface:"+n+"."+method]; ok {
		return f
	}
	return nil
}

// normalizeIfaceKeys re-keys interface contracts by the canonical name of the interface type they resolve to.
func normalizeIfaceKeys(w *World, sp *Specs) error {
	x := newExec(w, sp, nil, nil)
	for k, f := range sp.Funcs {
		if f.Kind != "iface" {
			continue
		}
		i := strings.LastIndex(f.Ref, ".")
		if i < 0 {
			return fmt.Errorf("%s: iface contract %q must be Type.Method", f.File, f.Ref)
		}
		var t types.Type
		var rerr error
		func() {
			defer func() {
				if r := recover(); r != nil {
					rerr = fmt.Errorf("%s: iface contract %q: %v", f.File, f.Ref, r)
				}
			}()
			env := x.newEnv(nil, f.PkgPath)
			t = env.resolveType(f.Ref[:i])
		}()
		if rerr != nil {
			return rerr
		}
		nk := "iface:" + typeName(t) + "." + f.Ref[i+1:]
		if nk != k {
			delete(sp.Funcs, k)
			sp.Funcs[nk] = f
		}
	}
	return nil
}

func (x *Exec) doCall(st *State, in *ssa.Call) (forks []*State, done bool) {
	pre := st.snap()
	nframes := len(st.frames)
	forks, done = x.doCall1(st, in)
	if len(st.frames) == nframes && !st.dead {
		// the call was summarised (contract or havoc), not entered: variables of the running functions whose address has not
		// escaped yet cannot have been written by it
		x.restoreUnescapedCells(st, pre, in)
	}
	return forks, done
}

// restoreUnescapedCells: a heap-allocated local (its address is taken somewhere in the function, e.g. captured by a closure later
// on) lives in a cell heap that a summarised call may have forgotten. If no instruction that lets the address escape can have
// executed before the call, the callee cannot know the address: the cell keeps its value.
func (x *Exec) restoreUnescapedCells(st *State, pre *HeapSnap, in ssa.Instruction) {
	at := in
	for fi := len(st.frames) - 1; fi >= 0; fi-- {
		f := st.frames[fi]
		for v, pv := range f.vals {
			a, ok := v.(*ssa.Alloc)
			if !ok || !a.Heap {
				continue
			}
			p, ok := pv.(*PtrV)
			if !ok || p.Kind != PRef || p.Global != nil {
				continue
			}
			t := a.Type().(*types.Pointer).Elem()
			if _, isS := isStructType(t); isS {
				continue
			}
			if _, isArr := t.Underlying().(*types.Array); isArr {
				continue
			}
			if escapedBefore(a, at) {
				continue
			}
			for _, c := range comps(t) {
				name := cellHeapName(t, c.Suffix)
				srt := arrSort(SInt, c.Sort)
				cur, was := st.getHeap(name, srt), pre.getHeap(name, srt)
				if cur.String() == was.String() {
					continue
				}
				x.assumeIn(st, mkEq(mkSelect(cur, p.Ref), mkSelect(was, p.Ref)))
			}
		}
		if f.call == nil {
			break
		}
		at = f.call
	}
}

// escapedBefore: some instruction that uses the alloc's address other than to load from or store to it can execute before `at`.
func escapedBefore(a *ssa.Alloc, at ssa.Instruction) bool {
	refs := a.Referrers()
	if refs == nil {
		return true
	}
	ab := at.Block()
	if ab == nil || ab.Parent() != a.Parent() {
		return true
	}
	for _, r := range *refs {
		switch r := r.(type) {
		case *ssa.Store:
			if r.Addr == a && r.Val != a {
				continue
			}
		case *ssa.UnOp:
			if r.X == a {
				continue
			}
		case *ssa.DebugRef:
			continue
		}
		rb := r.Block()
		if rb == ab {
			for _, i := range ab.Instrs {
				if i == r {
					return true // earlier in the same block
				}
				if i == at {
					break
				}
			}
		}
		// reachable through at least one edge?
		seen := map[*ssa.BasicBlock]bool{}
		work := append([]*ssa.BasicBlock(nil), rb.Succs...)
		for len(work) > 0 {
			b := work[len(work)-1]
			work = work[:len(work)-1]
			if seen[b] {
				continue
			}
			seen[b] = true
			if b == ab {
				return true
			}
			work = append(work, b.Succs...)
		}
	}
	return false
}

func (x *Exec) doCall1(st *State, in *ssa.Call) (forks []*State, done bool) {
	fr := st.frame()
	c := in.Call
	var args []Value
	for _, a := range c.Args {
		args = append(args, x.val(st, a))
	}
	if c.IsInvoke() {
		recv := x.val(st, c.Value).(*Term)
		if x.safety {
			x.oblige(st, "nonnil", "invoke"+x.instrLabel(in, "call"), mkNe(recv, mkInt(0)), "interface value used as method receiver is not nil", in.Pos())
		}
		x.assume(mkNe(recv, mkInt(0)))
		fr.vals[in] = x.invoke(st, in, recv, c.Value.Type(), c.Method, args)
		return nil, false
	}
	switch callee := c.Value.(type) {
	case *ssa.Builtin:
		fr.vals[in] = x.builtin(st, in, callee, args)
		return nil, st.dead
	case *ssa.Function:
		return x.callStatic(st, in, &FuncV{Fn: callee}, args)
	}
	if fv, ok := x.val(st, c.Value).(*FuncV); ok {
		return x.callStatic(st, in, fv, args)
	}
	// a function value read from memory: case split over the function constants the path has stored (e.g. a table built by a
	// package initialiser); the remaining case is an unknown callee
	if ft, ok := x.val(st, c.Value).(*Term); ok && len(x.knownFuncs) > 0 {
		var names []string
		for n := range x.knownFuncs {
			names = append(names, n)
		}
		sortStrings(names)
		var distinct []*Term
		for _, n := range names {
			cand := x.knownFuncs[n]
			if !types.Identical(cand.Fn.Signature.Params(), c.Signature().Params()) {
				continue
			}
			ct := mkVar(n, SInt)
			distinct = append(distinct, ct)
			alt := st.clone()
			x.assumeIn(alt, mkEq(ft, ct))
			x.cur = alt
			x.pushFrame(alt, cand, args, in)
			forks = append(forks, alt)
		}
		x.cur = st
		for i, d := range distinct {
			x.assumeIn(st, mkNe(ft, d))
			for _, e := range distinct[i+1:] {
				_ = e
			}
		}
	}
	// dynamic call through a function value: unknown effect
	x.note("uncontracted call: dynamic function value in %s", funcKey(in.Parent()))
	x.havocAll(st, "dynamic call")
	fr.vals[in] = x.freshValue("dyncall", in.Type())
	return forks, false
}

func (x *Exec) callStatic(st *State, in *ssa.Call, fv *FuncV, args []Value) (forks []*State, done bool) {
	fr := st.frame()
	callee := fv.Fn
	if x.inInit && callee.Name() == "init" {
		fr.vals[in] = nil
		return nil, false
	}
	if callee == x.fn && x.spec != nil && x.spec.BoundD > 0 {
		// bounded mode: self-recursion is inlined up to the stated depth, deeper paths are cut
		occ := 0
		for _, f := range st.frames {
			if f.fn == callee {
				occ++
			}
		}
		if occ > x.spec.BoundD {
			x.cuts++
			st.dead = true
			return nil, true
		}
		x.pushFrame(st, fv, args, in)
		return nil, false
	}
	if k := x.contractFor(callee); k != nil && !k.Inline {
		x.curCallee = callee
		fr.vals[in] = x.applyContract(st, in, k, callee.Signature, funcKey(callee), paramNames(callee, k), args)
		x.curCallee = nil
		return nil, st.dead
	}
	if x.canInline(st, callee) {
		x.pushFrame(st, fv, args, in)
		return nil, false
	}
	if callee.Blocks == nil || !inRepo(pkgPathOf(callee)) {
		if plainDataArgs(callee.Signature) {
			// a dependency that is handed only plain data (numbers, strings, slices of them) cannot reach repository objects:
			// fields of repository structs keep their values, everything else is forgotten
			x.note("uncontracted call: %s (no contract; takes plain data only: repository struct fields preserved, all other memory havocked)", callee.String())
			x.havocExcept(st, func(name string) bool { return repoFieldHeap(name) || strings.HasPrefix(name, "G|") })
		} else {
			x.note("uncontracted call: %s (no contract; memory havocked)", callee.String())
			x.havocAll(st, "call")
		}
	} else {
		x.note("uncontracted call: %s (in-repo, not inlinable; its SSA write footprint havocked)", funcKey(callee))
		x.havocFootprint(st, callee)
	}
	v := x.freshValue("call_"+callee.Name(), in.Type())
	x.typeFacts(st, v, in.Type())
	fr.vals[in] = v
	return nil, false
}

// havocFootprint forgets every heap the in-repo reach of callee may write and every heap that is not a field of a repository struct.
func (x *Exec) havocFootprint(st *State, callee *ssa.Function) {
	ws := x.footprintWrites(callee)
	ghosts := x.footprintGhosts(callee)
	extPkgs := x.footprintExternalPkgs(callee)
	written := ws.heaps
	x.havocExcept(st, func(name string) bool {
		if strings.HasPrefix(name, "G|") {
			return !ghosts["*"] && !ghosts[strings.TrimPrefix(name, "G|")]
		}
		if _, w := written[name]; w {
			return false
		}
		if repoFieldHeap(name) {
			return true
		}
		// a field of a dependency's struct type: only code of that package, or of a package that (transitively) imports it, can
		// write it; preserved when the callee's reach calls into no such package
		if strings.HasPrefix(name, "H|") {
			parts := strings.Split(name, "|")
			if n, ok := typeByID[parts[1]].(*types.Named); ok && n.Obj().Pkg() != nil {
				return !extPkgs[n.Obj().Pkg().Path()]
			}
		}
		// elements of slices whose element type is (a pointer to) a repository type: only repository code can store them
		// (stores, append and copy in the reach are in `written`); dependencies get at them only through reflection
		if strings.HasPrefix(name, "E|") {
			parts := strings.Split(name, "|")
			t := typeByID[parts[1]]
			if p, ok := t.(*types.Pointer); ok {
				t = p.Elem()
			}
			if n, ok := t.(*types.Named); ok && n.Obj().Pkg() != nil && inRepo(n.Obj().Pkg().Path()) {
				return !extPkgs["*dynamic*"]
			}
			// elements of any other slice type (strings, bytes, ...): a dependency object may keep a slice and write it in a later call
			// that takes no slice at all, so these are preserved only when the reach calls into no dependency code whatsoever
			// (read-only functions and assumed `modifies nothing` contracts aside) and makes no dynamic call
			return len(extPkgs) == 0
		}
		// a variable reached through a pointer (*int, *string, ...): preserved when no store through such a pointer is in the
		// reach and no dependency function in the reach is handed a pointer to that type
		if strings.HasPrefix(name, "C|") {
			parts := strings.Split(name, "|")
			return !extPkgs["*ptr:"+parts[1]] && !extPkgs["*dynamic*"]
		}
		return false
	})
}

// footprintExternalPkgs: the dependency packages whose struct fields the callee's reach could write: the package of every
// external function it calls plus everything those packages import.
func (x *Exec) footprintExternalPkgs(callee *ssa.Function) map[string]bool {
	if m, ok := extPkgCache[callee]; ok {
		return m
	}
	out := map[string]bool{}
	fp := x.w.footprint([]*ssa.Function{callee}, nil)
	var addPkg func(p *types.Package)
	addPkg = func(p *types.Package) {
		if p == nil || out[p.Path()] || inRepo(p.Path()) {
			return
		}
		out[p.Path()] = true
		for _, imp := range p.Imports() {
			addPkg(imp)
		}
	}
	for f := range fp.Funcs {
		for _, b := range f.Blocks {
			for _, in := range b.Instrs {
				if c, ok := in.(ssa.CallInstruction); ok {
					if c.Common().IsInvoke() {
						// interface method of a dependency type: its package
						if n, ok := c.Common().Value.Type().(*types.Named); ok && n.Obj().Pkg() != nil {
							addPkg(n.Obj().Pkg())
						}
						continue
					}
					if cf, ok := c.Common().Value.(*ssa.Function); ok && !inRepo(pkgPathOf(cf)) {
						sig := cf.Signature
						if readOnlyExtern(cf) {
							continue
						}
						// an assumed contract that says `modifies nothing` (or `pure`) is taken at its word here as it is at the call
						if k := x.sp.lookupFunc(cf); k != nil && k.Kind == "extern" && (k.Pure || (k.HasMod && len(k.Modifies) == 0)) {
							continue
						}
						var note func(t types.Type, d int)
						note = func(t types.Type, d int) {
							if d > 2 {
								return
							}
							switch u := t.Underlying().(type) {
							case *types.Pointer:
								out["*ptr:"+typeID(u.Elem())] = true
							case *types.Slice:
								note(u.Elem(), d+1)
							case *types.Interface:
								out["*dynamic*"] = true // could hold any pointer
							}
						}
						if sig.Recv() != nil {
							note(sig.Recv().Type(), 0)
						}
						for i := 0; i < sig.Params().Len(); i++ {
							note(sig.Params().At(i).Type(), 0)
						}
						if cf.Pkg != nil {
							addPkg(cf.Pkg.Pkg)
						} else if cf.Object() != nil {
							addPkg(cf.Object().Pkg())
						}
					}
				}
			}
		}
	}
	if len(fp.Dynamic) > 0 {
		out["*dynamic*"] = true
	}
	extPkgCache[callee] = out
	return out
}

var extPkgCache = map[*ssa.Function]map[string]bool{}

// footprintGhosts: ghost maps that contracts of functions in the callee's reach (in-repo or external) declare as modified.
func (x *Exec) footprintGhosts(callee *ssa.Function) map[string]bool {
	if g, ok := ghostCache[callee]; ok {
		return g
	}
	out := map[string]bool{}
	fp := x.w.footprint([]*ssa.Function{callee}, nil)
	consider := func(k *FuncSpec) {
		if k == nil {
			return
		}
		for _, l := range k.Modifies {
			if l.Ghost != "" {
				out[l.Ghost] = true
			}
		}
		for _, gs := range k.GhostSets {
			out[gs.Ghost] = true
		}
	}
	for f := range fp.Funcs {
		consider(x.sp.lookupFunc(f))
	}
	for name := range fp.External {
		for key, k := range x.sp.Funcs {
			if k.Kind == "extern" && (strings.Contains(name, strings.TrimPrefix(key, "extern:")) || externMatches(name, k.Ref)) {
				consider(k)
			}
		}
	}
	// interface invocations inside the reach with iface contracts
	for f := range fp.Funcs {
		for _, b := range f.Blocks {
			for _, in := range b.Instrs {
				if c, ok := in.(ssa.CallInstruction); ok && c.Common().IsInvoke() {
					consider(x.sp.lookupIface(c.Common().Value.Type(), c.Common().Method.Name()))
				}
			}
		}
	}
	ghostCache[callee] = out
	return out
}

var ghostCache = map[*ssa.Function]map[string]bool{}

// externMatches: ssa prints methods as (*pkg.T).M; extern refs are written pkg.T.M
func externMatches(ssaName, ref string) bool {
	n := strings.NewReplacer("(", "", ")", "", "*", "").Replace(ssaName)
	return n == ref
}

func pkgPathOf(fn *ssa.Function) string {
	if fn.Pkg != nil {
		return fn.Pkg.Pkg.Path()
	}
	if fn.Object() != nil && fn.Object().Pkg() != nil {
		return fn.Object().Pkg().Path()
	}
	if fn.Parent() != nil {
		return pkgPathOf(fn.Parent())
	}
	return ""
}

func paramNames(fn *ssa.Function, k *FuncSpec) []string {
	var names []string
	if len(k.Params) > 0 {
		for _, p := range k.Params {
			names = append(names, p.Name)
		}
		return names
	}
	for _, p := range fn.Params {
		names = append(names, p.Name())
	}
	return names
}

// canInline: in-repo (or closure) callee with a body, not recursive on the current stack, shallow.
func (x *Exec) canInline(st *State, callee *ssa.Function) bool {
	if callee.Blocks == nil {
		return false
	}
	if callee.Parent() == nil && !inRepo(pkgPathOf(callee)) {
		return false
	}
	if len(st.frames) > x.inlineDepthMax {
		return false
	}
	occ := 0
	for _, f := range st.frames {
		if f.fn == callee {
			occ++
		}
	}
	if occ > 0 {
		if x.spec != nil && x.spec.BoundD > 0 && callee == x.fn {
			return occ <= x.spec.BoundD
		}
		return false
	}
	if k := x.contractFor(callee); k != nil && k.Inline {
		return true
	}
	// auto-inline: small and loop free, or a closure
	if callee.Parent() != nil {
		return true
	}
	n := 0
	for _, b := range callee.Blocks {
		n += len(b.Instrs)
	}
	if len(x.loopsOf(callee).headers) > 0 {
		return false
	}
	return n <= 60
}

func (x *Exec) pushFrame(st *State, fv *FuncV, args []Value, call ssa.CallInstruction) {
	callee := fv.Fn
	nf := &Frame{fn: callee, locals: map[*ssa.Alloc]Value{}, vals: map[ssa.Value]Value{}, block: callee.Blocks[0], call: call, entered: map[*ssa.BasicBlock]bool{}, depth: len(st.frames)}
	for i, p := range callee.Params {
		if i < len(args) {
			nf.vals[p] = args[i]
		}
	}
	for i, fvv := range callee.FreeVars {
		if i < len(fv.Bindings) {
			nf.vals[fvv] = fv.Bindings[i]
		}
	}
	st.frames = append(st.frames, nf)
	st.trail = append(st.trail, "["+callee.Name())
}

func (x *Exec) doReturn(st *State, in *ssa.Return) (forks []*State, done bool) {
	fr := st.frame()
	var res []Value
	for _, r := range in.Results {
		res = append(res, x.val(st, r))
	}
	if len(st.frames) == 1 {
		x.atReturn(st, res, in)
		st.dead = true
		return nil, true
	}
	st.frames = st.frames[:len(st.frames)-1]
	st.trail = append(st.trail, "]")
	caller := st.frame()
	if fr.call != nil {
		if v, ok := fr.call.(ssa.Value); ok {
			switch len(res) {
			case 0:
				caller.vals[v] = nil
			case 1:
				caller.vals[v] = res[0]
			default:
				caller.vals[v] = TupleV(res)
			}
		}
	}
	return nil, false
}

// invoke: interface method call.
func (x *Exec) invoke(st *State, in *ssa.Call, recv *Term, it types.Type, m *types.Func, args []Value) Value {
	sig := m.Type().(*types.Signature)
	// error.Error() and fmt.Stringer-like pure observers
	if m.Name() == "Error" && sig.Params().Len() == 0 && sig.Results().Len() == 1 && scalarSort(sig.Results().At(0).Type()) == SStr {
		return ufApp(&UF{"err_Error", []Sort{SInt}, SStr}, recv)
	}
	if k := x.sp.lookupIface(it, m.Name()); k != nil {
		names := []string{"self"}
		for i, p := range k.Params {
			_ = i
			names = append(names, p.Name)
		}
		if len(k.Params) == 0 {
			for i := 0; i < sig.Params().Len(); i++ {
				n := sig.Params().At(i).Name()
				if n == "" {
					n = fmt.Sprintf("arg%d", i)
				}
				names = append(names, n)
			}
		}
		x.curIface = it
		x.curMethod = m.Name()
		r := x.applyContract(st, in, k, sig, typeName(it)+"."+m.Name(), names, append([]Value{recv}, args...))
		x.curIface = nil
		return r
	}
	x.note("uncontracted call: interface method %s.%s (memory havocked)", typeName(it), m.Name())
	x.havocAll(st, "invoke")
	return x.freshValue("invoke_"+m.Name(), in.Type())
}

func resultNamesFor(sig *types.Signature, k *FuncSpec) []string {
	n := sig.Results().Len()
	names := make([]string, n)
	for i := 0; i < n; i++ {
		v := sig.Results().At(i)
		switch {
		case k != nil && i < len(k.ResultNames):
			names[i] = k.ResultNames[i]
		case v.Name() != "" && v.Name() != "_":
			names[i] = v.Name()
		case i == n-1 && types.Identical(v.Type(), types.Universe.Lookup("error").Type()):
			names[i] = "err"
		case n == 1 || (n == 2 && i == 0):
			names[i] = "ret"
		default:
			names[i] = fmt.Sprintf("ret%d", i)
		}
	}
	return names
}

// applyContract: assert requires, havoc modifies, assume ensures.
func (x *Exec) applyContract(st *State, in *ssa.Call, k *FuncSpec, sig *types.Signature, calleeName string, pnames []string, args []Value) Value {
	if k.Kind != "func" {
		x.usedExtern[k.Kind+" "+k.Ref] = true
	} else if k.Trusted != "" {
		x.usedExtern["trusted (not verified) contract of "+k.Ref+": "+k.Trusted] = true
	}
	env := x.newEnv(st, k.PkgPath)
	ptypes := sigParamTypes(sig, len(args))
	for i, n := range pnames {
		if i < len(args) {
			env.bind(n, args[i], ptypes[i])
		}
	}
	pre := st.snap()
	env.old = pre
	env.oldVars = env.vars
	x.calls[calleeName]++
	// caller-side assertions for this call site (only in the function under verification itself)
	if x.spec != nil && len(x.spec.CallAsserts) > 0 && len(st.frames) == 1 {
		nth := 0
		key := "callcount:" + calleeName
		if v, ok := st.heap[key]; ok {
			n64, _ := isLitInt(v)
			nth = int(n64)
		}
		nth++
		st.heap[key] = mkInt(int64(nth))
		for _, ca := range x.spec.CallAsserts {
			if !strings.HasSuffix(calleeName, ca.Callee) || (ca.Ord != 0 && ca.Ord != nth) {
				continue
			}
			cenv := x.localsEnv(st, st.frames[0], 0, in.Block(), pkgPathOf(x.fn))
			x.bindEntry(cenv)
			for i, n := range pnames {
				if i < len(args) {
					cenv.bind("arg_"+n, args[i], ptypes[i])
				}
			}
			label := ca.C.Label
			if label == "" {
				label = fmt.Sprintf("%s.%d", shortCallee(ca.Callee), nth)
			}
			// an assertion that names a caller local is meant for the call sites where that local is in scope; elsewhere it
			// does not apply (noted). A label that applies nowhere is reported as not analysable at the end of the function.
			var g *Term
			func() {
				defer func() {
					if r := recover(); r != nil {
						if msg, ok := r.(string); ok && strings.HasPrefix(msg, "contract: unknown name") {
							x.note("atcall %s does not apply at %s (%s)", label, x.w.Fset.Position(in.Pos()), msg)
							g = nil
							return
						}
						panic(r)
					}
				}()
				g = x.evalBool(cenv, ca.C.E)
			}()
			if g == nil {
				continue
			}
			if x.atcallApplied == nil {
				x.atcallApplied = map[string]bool{}
			}
			x.atcallApplied[label] = true
			if os.Getenv("GVC_DEBUG_ATCALL") != "" {
				fmt.Fprintf(os.Stderr, "ATCALL %s nth=%d goal=%s\n", calleeName, nth, g.String())
			}
			x.oblige(st, "atcall", label, g, "at the call of "+calleeName+": "+ca.C.Src, in.Pos())
			x.assumeIn(st, g)
		}
	}
	for i, c := range k.Requires {
		label := c.Label
		if label == "" {
			label = fmt.Sprintf("%d", i+1)
		}
		g := x.evalBool(env, c.E)
		x.oblige(st, "requires@"+shortCallee(calleeName), x.instrLabel(in, "call")+"."+label, g, "precondition of "+calleeName+": "+c.Src, in.Pos())
		x.assumeIn(st, g)
	}
	// recursion variant: a call from the function under verification to a function that also declares a measure must strictly
	// decrease it (lexicographically; every component is bounded below at the callee's own entry, obligation variant:bounded)
	if k.Kind == "func" && len(k.Measure) > 0 && len(x.entryMeasure) > 0 && len(st.frames) == 1 {
		if len(k.Measure) != len(x.entryMeasure) {
			panic(fmt.Sprintf("contract: decreases of %s has %d components, the caller's has %d", calleeName, len(k.Measure), len(x.entryMeasure)))
		}
		var callee []*Term
		for _, c := range k.Measure {
			v, _ := x.eval(env, c.E)
			callee = append(callee, v.(*Term))
		}
		var alts []*Term
		for i := range callee {
			var conj []*Term
			for j := 0; j < i; j++ {
				conj = append(conj, mkEq(callee[j], x.entryMeasure[j]))
			}
			conj = append(conj, mkCmp("<", callee[i], x.entryMeasure[i]))
			alts = append(alts, mkAnd(conj...))
		}
		x.oblige(st, "variant@"+shortCallee(calleeName), x.instrLabel(in, "call"), mkOr(alts...), "the call of "+calleeName+" strictly decreases the recursion variant (lexicographic)", in.Pos())
		x.variantCalls++
	}
	// nil discipline: pointer receiver of a contracted in-repo method must not be nil unless declared nilable
	if k.Kind == "func" && sig.Recv() != nil && len(args) > 0 {
		if p, ok := args[0].(*PtrV); ok && p.Kind == PRef && !k.Nilable[pnames[0]] {
			if _, lit := isLitInt(p.Ref); !lit || p.Ref.Op == "0" {
				x.oblige(st, "requires@"+shortCallee(calleeName), x.instrLabel(in, "call")+".recv", mkNe(p.Ref, mkInt(0)), "receiver of "+calleeName+" is not nil", in.Pos())
			}
		}
	}
	// havoc
	if !k.HasMod && k.Kind == "func" && x.curCallee != nil && x.curCallee.Blocks != nil {
		// an in-repo contract without a modifies clause: the callee's SSA write footprint
		x.havocFootprint(st, x.curCallee)
	} else if !k.HasMod {
		x.havocAll(st, calleeName)
	} else {
		x.havocLocs(st, env, k.Modifies)
		// allocation may have happened
		ntop := x.fresh("top", SInt)
		x.assumeIn(st, mkCmp("<=", st.top, ntop))
		st.top = ntop
	}
	// results
	var res Value
	rt := sig.Results()
	rnames := resultNamesFor(sig, k)
	var rvals []Value
	for i := 0; i < rt.Len(); i++ {
		v := x.freshValue("r_"+smtIdent(shortCallee(calleeName))+"_"+rnames[i], rt.At(i).Type())
		x.typeFacts(st, v, rt.At(i).Type())
		rvals = append(rvals, v)
		env.bind(rnames[i], v, rt.At(i).Type())
	}
	switch len(rvals) {
	case 0:
		res = nil
	case 1:
		res = rvals[0]
	default:
		res = TupleV(rvals)
	}
	for _, fname := range k.Fresh {
		if v, ok := env.vars[fname]; ok {
			if p, ok := v.(*PtrV); ok && p.Kind == PRef {
				x.assumeIn(st, mkImplies(mkNe(p.Ref, mkInt(0)), mkCmp(">", p.Ref, pre.top)))
			}
		}
	}
	env.st = st
	preN := len(st.pc)
	for _, c := range k.Ensures {
		x.assumeIn(st, x.evalBool(env, c.E))
	}
	// vacuity probe: the callee's postconditions must not contradict what the caller knows (a contradictory contract, or a
	// frame that preserves something the callee's contract changes, would make everything after the call pass)
	if len(k.Ensures) > 0 && !st.dead && in != nil {
		ck := x.key + "|" + x.instrLabel(in, "call") + "|" + calleeName
		if x.afterCovers == nil {
			x.afterCovers = map[string]int{}
		}
		if x.afterCovers[ck] < 2 {
			x.afterCovers[ck]++
			x.obligs = append(x.obligs, &Oblig{Name: x.key + "#cover:after:" + shortCallee(calleeName) + ":" + x.instrLabel(in, "call"), Func: x.key, Kind: "cover",
				Hyps: append([]*Term(nil), st.pc...), Goal: tFalse, Cover: true, PreN: preN, Path: describePath(st),
				Desc: "the postconditions assumed for " + calleeName + " do not contradict the caller's state (vacuity probe; must not be unsat)"})
		}
	}
	return res
}

func shortCallee(n string) string {
	if i := strings.LastIndex(n, "/"); i >= 0 {
		n = n[i+1:]
	}
	return strings.NewReplacer("(", "", ")", "", "*", "").Replace(n)
}

func sigParamTypes(sig *types.Signature, n int) []types.Type {
	var out []types.Type
	if sig.Recv() != nil {
		out = append(out, sig.Recv().Type())
	}
	for i := 0; i < sig.Params().Len(); i++ {
		out = append(out, sig.Params().At(i).Type())
	}
	for len(out) < n { // interface invoke: receiver passed explicitly
		out = append([]types.Type{types.NewInterfaceType(nil, nil)}, out...)
	}
	return out
}

// havocLocs forgets the listed locations.
func (x *Exec) havocLocs(st *State, env *Env, locs []Loc) {
	for _, l := range locs {
		if l.When != "" {
			if v, ok := env.vars[l.When]; ok {
				if t, ok := v.(*Term); ok && t == tFalse {
					continue // not written in this call
				}
			}
		}
		switch {
		case l.All:
			if x.curIface != nil && x.fn != nil {
				x.havocAllButPrivate(st)
				continue
			}
			x.havocAll(st, "modifies *")
		case l.Footprint:
			if x.curCallee == nil {
				x.havocAll(st, "modifies footprint on a non-static callee")
				continue
			}
			x.note("assumption: callee %s writes at most its SSA write footprint; dependencies write no field of a repository struct except through repository callbacks", funcKey(x.curCallee))
			x.havocFootprint(st, x.curCallee)
		case l.Cell != nil:
			v, t := x.eval(env.atOld(), l.Cell)
			et := derefType(t)
			ref := x.valRef(st, v)
			for _, c := range comps(et) {
				name := cellHeapName(et, c.Suffix)
				st.heap[name] = mkStore(st.getHeap(name, arrSort(SInt, c.Sort)), ref, x.fresh("havoc_cell", c.Sort))
			}
		case l.Ghost != "":
			g := x.sp.Ghosts[l.Ghost]
			if g == nil {
				panic("modifies: unknown ghost " + l.Ghost)
			}
			name := "G|" + l.Ghost
			st.heap[name] = x.fresh("havoc_"+l.Ghost, x.ghostHeapSort(g))
		case l.Type != "":
			T := env.resolveType(l.Type)
			x.havocFieldAll(st, T, l.Field)
		case l.Elems != nil:
			v, t := x.eval(env, l.Elems)
			s := v.(*SliceV)
			et := t.Underlying().(*types.Slice).Elem()
			if _, ok := isStructType(et); ok {
				sst, _ := isStructType(et)
				for i := 0; i < sst.NumFields(); i++ {
					x.havocFieldAll(st, et, sst.Field(i).Name())
				}
				continue
			}
			for _, c := range comps(et) {
				name := elemHeapName(et, c.Suffix)
				h := st.getHeap(name, arrSort(SInt, arrSort(SInt, c.Sort)))
				st.heap[name] = mkStore(h, s.Arr, x.fresh("havoc_elems", arrSort(SInt, c.Sort)))
			}
		default:
			bv, bt := x.eval(env.atOld(), l.Base)
			T := derefType(bt)
			s, ok := isStructType(T)
			if !ok {
				panic("modifies: base of " + l.Src + " is not a struct")
			}
			idx := fieldIndex(s, l.Field)
			if idx < 0 {
				panic("modifies: no field " + l.Field + " in " + typeName(T))
			}
			ref := x.valRef(st, bv)
			ft := s.Field(idx).Type()
			x.storeField(st, T, idx, ref, ft, x.freshValue("havoc_"+l.Field, ft))
		}
	}
}

func (x *Exec) havocFieldAll(st *State, T types.Type, field string) {
	s, ok := isStructType(T)
	if !ok {
		panic("modifies type: not a struct: " + typeName(T))
	}
	idx := fieldIndex(s, field)
	if idx < 0 {
		panic("modifies: no field " + field + " in " + typeName(T))
	}
	ft := s.Field(idx).Type()
	if fs, ok := isStructType(ft); ok {
		for i := 0; i < fs.NumFields(); i++ {
			x.havocFieldAll(st, ft, fs.Field(i).Name())
		}
		return
	}
	for _, c := range comps(ft) {
		name := fieldHeapName(T, idx, c.Suffix)
		st.heap[name] = x.fresh("havoc_"+field, arrSort(SInt, c.Sort))
	}
}

func fieldIndex(s *types.Struct, name string) int {
	for i := 0; i < s.NumFields(); i++ {
		if s.Field(i).Name() == name {
			return i
		}
	}
	return -1
}

func derefType(t types.Type) types.Type {
	if p, ok := t.Underlying().(*types.Pointer); ok {
		return p.Elem()
	}
	return t
}

func (x *Exec) valRef(st *State, v Value) *Term {
	switch p := v.(type) {
	case *PtrV:
		return x.refOf(st, p)
	case *Term:
		return p
	}
	panic(fmt.Sprintf("valRef: %T", v))
}

// ---------------------------------------------------------------- builtins

func (x *Exec) builtin(st *State, in *ssa.Call, b *ssa.Builtin, args []Value) Value {
	switch b.Name() {
	case "len":
		switch a := args[0].(type) {
		case *SliceV:
			return a.Len
		case *Term:
			if a.Sort == SStr {
				r := ufApp(ufSlen, a)
				x.assume(mkCmp(">=", r, mkInt(0)))
				return r
			}
			// map
			r := x.mapLen(st, st, a)
			return r
		}
	case "cap":
		if a, ok := args[0].(*SliceV); ok {
			return a.Cap
		}
	case "append":
		return x.doAppend(st, in, args)
	case "copy":
		return x.doCopy(st, in, args)
	case "delete":
		x.mapDelete(st, in.Call.Args[0].Type(), args[0].(*Term), args[1])
		return nil
	case "panic":
		if x.safety {
			x.oblige(st, "panic", x.instrLabel(in, "call"), tFalse, "explicit panic is unreachable", in.Pos())
		}
		st.dead = true
		return nil
	case "print", "println":
		return nil
	case "recover":
		return mkInt(0)
	case "ssa:wrapnilchk":
		return args[0]
	case "ssa:deferstack":
		return mkInt(0)
	case "min", "max":
		a, b2 := args[0].(*Term), args[1].(*Term)
		if b.Name() == "min" {
			return mkIte(mkCmp("<=", a, b2), a, b2)
		}
		return mkIte(mkCmp(">=", a, b2), a, b2)
	}
	x.note("abstracted: builtin %s", b.Name())
	return x.freshValue("builtin_"+b.Name(), in.Type())
}

// doAppend: both outcomes (in place / reallocate) are covered by one symbolic result with a case split on capacity.
func (x *Exec) doAppend(st *State, in *ssa.Call, args []Value) Value {
	s := args[0].(*SliceV)
	et := in.Type().Underlying().(*types.Slice).Elem()
	var addLen *Term
	var src *SliceV
	var srcStr *Term
	switch a := args[1].(type) {
	case *SliceV:
		src = a
		addLen = a.Len
	case *Term: // append([]byte, string...)
		srcStr = a
		addLen = ufApp(ufSlen, a)
	}
	newLen := mkAdd(s.Len, addLen)
	fits := mkCmp("<=", newLen, s.Cap)
	// fresh backing array for the reallocating case
	narr := x.newRef(st)
	ncap := x.fresh("appcap", SInt)
	x.assume(mkCmp(">=", ncap, newLen))
	res := &SliceV{mkIte(fits, s.Arr, narr), mkIte(fits, s.Off, mkInt(0)), newLen, mkIte(fits, s.Cap, ncap)}
	if _, isStruct := isStructType(et); isStruct {
		// struct elements: copy field-wise for the (common) single-element append; otherwise contents unknown
		if src != nil {
			if n, ok := isLitInt(src.Len); ok && n <= 4 {
				// reallocation copies old elements: modelled with a quantified fact per field heap
				x.copyStructElems(st, et, s, res, fits)
				for i := int64(0); i < n; i++ {
					v := x.load(st, st, &PtrV{Kind: PElem, Ref: src.Arr, Idx: mkAdd(src.Off, mkInt(i)), Elem: et})
					x.store(st, &PtrV{Kind: PElem, Ref: res.Arr, Idx: mkAdd(res.Off, mkAdd(s.Len, mkInt(i))), Elem: et}, v)
				}
				return res
			}
		}
		x.note("abstracted: append of struct slices of unknown length in %s", funcKey(in.Parent()))
		sst, _ := isStructType(et)
		for i := 0; i < sst.NumFields(); i++ {
			x.havocFieldAll(st, et, sst.Field(i).Name())
		}
		return res
	}
	for _, c := range comps(et) {
		name := elemHeapName(et, c.Suffix)
		as := arrSort(SInt, c.Sort)
		h := st.getHeap(name, arrSort(SInt, as))
		oldRow := mkSelect(h, s.Arr)
		// new row content: for i < len: old content (shifted if reallocated); for len <= i < newLen: source
		row := x.fresh("approw", as)
		i := mkVar("i!", SInt)
		var srcAt *Term
		if src != nil {
			srcAt = mkSelect(mkSelect(h, src.Arr), mkAdd(src.Off, mkSub(i, s.Len)))
		} else if c.Sort == SInt {
			srcAt = ufApp(ufSByte, srcStr, mkSub(i, s.Len))
		}
		body := mkAnd(
			mkImplies(mkAnd(mkCmp("<=", mkInt(0), i), mkCmp("<", i, s.Len)), mkEq(mkSelect(row, mkAdd(res.Off, i)), mkSelect(oldRow, mkAdd(s.Off, i)))),
		)
		if srcAt != nil {
			body = mkAnd(body, mkImplies(mkAnd(mkCmp("<=", s.Len, i), mkCmp("<", i, newLen)), mkEq(mkSelect(row, mkAdd(res.Off, i)), srcAt)))
		}
		// in-place append leaves everything outside [off+len, off+newLen) untouched
		j := mkVar("j!", SInt)
		outside := mkImplies(mkAnd(fits, mkOr(mkCmp("<", j, mkAdd(s.Off, s.Len)), mkCmp(">=", j, mkAdd(s.Off, newLen)))), mkEq(mkSelect(row, j), mkSelect(oldRow, j)))
		if n, ok := isLitInt(addLen); ok && n == 1 && src != nil {
			// the common case is quantifier free for the appended element
			x.assume(mkEq(mkSelect(row, mkAdd(res.Off, s.Len)), mkSelect(mkSelect(h, src.Arr), src.Off)))
			// in place, the new row is exactly the old row with one element stored (array theory instead of quantifiers)
			x.assume(mkImplies(fits, mkEq(row, mkStore(oldRow, mkAdd(s.Off, s.Len), mkSelect(mkSelect(h, src.Arr), src.Off)))))
		}
		x.assume(mkForall([]*Term{i}, body))
		x.assume(mkForall([]*Term{j}, outside))
		if src != nil {
			// the same fact indexed by the source position (canonical index terms on both sides)
			k := mkVar("k!", SInt)
			x.assume(mkForall([]*Term{k}, mkImplies(mkAnd(mkCmp("<=", mkInt(0), k), mkCmp("<", k, addLen)),
				mkEq(mkSelect(row, mkAdd(mkAdd(res.Off, s.Len), k)), mkSelect(mkSelect(h, src.Arr), mkAdd(src.Off, k))))))
		}
		st.heap[name] = mkStore(h, res.Arr, row)
	}
	return res
}

func (x *Exec) copyStructElems(st *State, et types.Type, from, to *SliceV, same *Term) {
	sst, _ := isStructType(et)
	i := mkVar("i!", SInt)
	for f := 0; f < sst.NumFields(); f++ {
		ft := sst.Field(f).Type()
		if _, nested := isStructType(ft); nested {
			continue
		}
		for _, c := range comps(ft) {
			name := fieldHeapName(et, f, c.Suffix)
			h := st.getHeap(name, arrSort(SInt, c.Sort))
			nh := x.fresh("appcopy", arrSort(SInt, c.Sort))
			src := x.elemRefPure(et, from.Arr, mkAdd(from.Off, i))
			dst := x.elemRefPure(et, to.Arr, mkAdd(to.Off, i))
			x.assume(mkForall([]*Term{i}, mkImplies(mkAnd(mkCmp("<=", mkInt(0), i), mkCmp("<", i, from.Len)), mkEq(mkSelect(nh, dst), mkSelect(h, src)))))
			r := mkVar("r!", SInt)
			// everything that is not an element of the new array keeps its value
			x.assume(mkForall([]*Term{r}, mkImplies(mkOr(same, mkNe(ufApp(&UF{"elem_" + typeID(et) + "_arr", []Sort{SInt}, SInt}, r), to.Arr)), mkEq(mkSelect(nh, r), mkSelect(h, r)))))
			st.heap[name] = nh
		}
	}
}

func (x *Exec) elemRefPure(T types.Type, arr, idx *Term) *Term {
	return ufApp(&UF{"elem_" + typeID(T), []Sort{SInt, SInt}, SInt}, arr, idx)
}

func (x *Exec) doCopy(st *State, in *ssa.Call, args []Value) Value {
	dst := args[0].(*SliceV)
	et := in.Call.Args[0].Type().Underlying().(*types.Slice).Elem()
	var n *Term
	switch src := args[1].(type) {
	case *SliceV:
		n = mkIte(mkCmp("<=", dst.Len, src.Len), dst.Len, src.Len)
		if _, isStruct := isStructType(et); isStruct {
			x.note("abstracted: copy of struct slices in %s", funcKey(in.Parent()))
			sst, _ := isStructType(et)
			for i := 0; i < sst.NumFields(); i++ {
				x.havocFieldAll(st, et, sst.Field(i).Name())
			}
			return n
		}
		for _, c := range comps(et) {
			name := elemHeapName(et, c.Suffix)
			as := arrSort(SInt, c.Sort)
			h := st.getHeap(name, arrSort(SInt, as))
			srcRow, dstRow := mkSelect(h, src.Arr), mkSelect(h, dst.Arr)
			row := x.fresh("copyrow", as)
			j := mkVar("j!", SInt)
			inside := mkAnd(mkCmp("<=", dst.Off, j), mkCmp("<", j, mkAdd(dst.Off, n)))
			x.assume(mkForall([]*Term{j}, mkAnd(
				mkImplies(inside, mkEq(mkSelect(row, j), mkSelect(srcRow, mkAdd(src.Off, mkSub(j, dst.Off))))),
				mkImplies(mkNot(inside), mkEq(mkSelect(row, j), mkSelect(dstRow, j))))))
			st.heap[name] = mkStore(h, dst.Arr, row)
			if b, ok := et.Underlying().(*types.Basic); ok && b.Kind() == types.Uint8 {
				// the copied bytes read as the same string
				x.assume(mkEq(ufApp(ufStrOfBytes, row, dst.Off, n), ufApp(ufStrOfBytes, srcRow, src.Off, n)))
			}
		}
	case *Term: // copy([]byte, string)
		n = x.fresh("copyn", SInt)
		x.assume(mkAnd(mkCmp("<=", mkInt(0), n), mkCmp("<=", n, dst.Len)))
		name := elemHeapName(et, "")
		h := st.getHeap(name, arrSort(SInt, arrSort(SInt, SInt)))
		st.heap[name] = mkStore(h, dst.Arr, x.fresh("copyrow", arrSort(SInt, SInt)))
	}
	return n
}

// havocAllButPrivate: an interface method with `modifies *` was invoked from a function of package P. Everything is forgotten
// except unexported fields of struct types declared in P that no in-repo implementation of the method can reach a store to.
// (Unexported fields of P's types can only be written by code of P; a caller-supplied implementation could reach such a store
// only by calling back into P, which is excluded as an assumption.)
func (x *Exec) havocAllButPrivate(st *State) {
	myPkg := pkgPathOf(x.fn)
	it, _ := x.curIface.Underlying().(*types.Interface)
	key := typeName(x.curIface) + "." + x.curMethod
	ws, ok := implWriteCache[key]
	if !ok {
		impls := x.w.implementersOf(it, x.curMethod)
		fp := x.w.footprint(impls, nil)
		ws = fp.writeSet()
		implWriteCache[key] = ws
	}
	x.note("assumption: caller-supplied implementations of %s do not call back into package %s (its unexported fields are preserved across the call; in-repo implementations are checked by footprint)", key, shortPkg(myPkg))
	x.havocExcept(st, func(name string) bool {
		if !strings.HasPrefix(name, "H|") {
			return false
		}
		if _, written := ws.heaps[name]; written {
			return false
		}
		parts := strings.Split(name, "|")
		t := typeByID[parts[1]]
		n, isNamed := t.(*types.Named)
		if !isNamed || n.Obj().Pkg() == nil || n.Obj().Pkg().Path() != myPkg {
			return false
		}
		// field must be unexported
		return len(parts) >= 3 && !token.IsExported(parts[2])
	})
}

var implWriteCache = map[string]*writeSet{}

// plainDataArgs: every parameter (and the receiver) is a basic type, a string, or a slice/array of such.
func plainDataArgs(sig *types.Signature) bool {
	var plain func(t types.Type, depth int) bool
	plain = func(t types.Type, depth int) bool {
		if depth > 3 {
			return false
		}
		switch u := t.Underlying().(type) {
		case *types.Basic:
			return u.Kind() != types.UnsafePointer
		case *types.Slice:
			return plain(u.Elem(), depth+1)
		case *types.Array:
			return plain(u.Elem(), depth+1)
		}
		return false
	}
	if sig.Recv() != nil && !plain(sig.Recv().Type(), 0) {
		return false
	}
	for i := 0; i < sig.Params().Len(); i++ {
		if !plain(sig.Params().At(i).Type(), 0) {
			return false
		}
	}
	return true
}

// readOnlyExtern: standard-library functions that only read what their arguments reach (formatting, string and rune helpers,
// regular-expression matching). Assumption: Stringer/Error/Format methods they may call on repository values do not write.
func readOnlyExtern(f *ssa.Function) bool {
	p := pkgPathOf(f)
	switch p {
	case "strings", "strconv", "unicode", "unicode/utf8", "errors", "regexp", "math":
		return true
	case "fmt":
		return strings.HasPrefix(f.Name(), "Sprint") || f.Name() == "Errorf"
	}
	return false
}
