#!/bin/bash
# Builds the gvc binary from /verif/gvc using only the local module cache.
set -e
cd "$(dirname "$0")"
export GOFLAGS=-mod=mod GOPROXY=off GOSUMDB=off GOTOOLCHAIN=local
mkdir -p bin evidence work replays
(cd gvc && go build -o ../bin/gvc .)
echo "gvc built"
